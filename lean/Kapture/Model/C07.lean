/-
  Model/C07.lean — kapture/core/Trajectories.py (class Trajectories) and kapture/core/Records.py (RecordsBase)
  as a state machine.  One Lean function per Python method, same branch structure.

  state  = the dict of dicts (insertion ordered, Base/Dict.lean) + `_timestamps_sorted_list` (the cache; `[]` = invalid).
  `_first_timestamp/_last_timestamp` are written by `timestamps_sorted_list` but no longer read by anything
  (after the D3 fix `intermediate_pose` takes its bounds from the list itself), so they are not part of the state.
  RecordsBase is the same machine without the cache-reading operations.

  Poses are an abstract type `P`; the interpolant `compute_intermediate_pose` is an opaque constructor `Out.interp`
  carrying its five arguments (the harness checks the arguments the real function is called with).
-/
import Kapture.Base.Dict
import Kapture.Base.Sort
import Kapture.Gen.NumDigits

namespace Kapture.C07
open Kapture Kapture.Sort

abbrev Inner (P : Type) := List (String × P)
abbrev Data (P : Type) := List (Int × Inner P)

structure State (P : Type) where
  data : Data P
  cache : List Int

/-- `Trajectories()` -/
def init {P : Type} : State P := { data := [], cache := [] }

inductive Op (P : Type) where
  | setPair (ts : Int) (dev : String) (p : P)          -- t[ts, dev] = p
  | setTs (ts : Int) (inner : List (String × P))       -- t[ts] = {dev: p, ...}
  | delPair (ts : Int) (dev : String)                  -- del t[ts, dev]
  | delTs (ts : Int)                                   -- del t[ts]
  | hasPair (ts : Int) (dev : String)                  -- (ts, dev) in t
  | hasTs (ts : Int)                                   -- ts in t
  | getPair (ts : Int) (dev : String)                  -- t[ts, dev]
  | sortedList                                         -- t.timestamps_sorted_list()
  | tsLength                                           -- t.timestamp_length()
  | keyPairs                                           -- t.key_pairs()
  | interp (ts : Int) (dev : String) (maxI : Int)      -- t.intermediate_pose(ts, dev, maxI)

inductive Out (P : Type) where
  | ok
  | keyError
  | indexError
  | bool (b : Bool)
  | pose (p : P)
  | ints (l : List Int)
  | int (i : Int)
  | pairs (l : List (Int × String))
  | none
  | interp (lo : Int) (loP : P) (up : Int) (upP : P) (ts : Int)
deriving DecidableEq, Repr

variable {P : Type}

/-- `timestamps_sorted_list` (Trajectories.py:117-127): re-sort only when the cache is empty -/
def refresh (s : State P) : State P :=
  if s.cache.isEmpty then { s with cache := isort (Dict.keys s.data) } else s

/-- python list indexing with negative indices -/
def pyIndex (l : List Int) (i : Int) : Option Int :=
  if i ≥ 0 then l[i.toNat]? else
    if (-i).toNat ≤ l.length then l[l.length - (-i).toNat]? else none

/-- the index list of `timestamp_length` (Trajectories.py:137) -/
def lengthIndexes (n : Nat) : List Int :=
  if n > 10 then [1, 2, 3, 4, 5, -1, -2, -3, -4] else (List.range n).drop 1 |>.map Int.ofNat

/-- `timestamp_length` on the sorted list (Trajectories.py:129-142) -/
def tsLengthOf (l : List Int) : Out P :=
  let base : Int := match l.head? with
    | some h => Gen.NumDigits.numDigits h
    | Option.none => -1
  let rec go : List Int → Out P
    | [] => Out.int base
    | n :: ns =>
      match pyIndex l n with
      | Option.none => Out.indexError
      | some t => if Gen.NumDigits.numDigits t ≠ base then Out.int (-1) else go ns
  go (lengthIndexes l.length)

inductive Scan where
  | err            -- KeyError: a cached timestamp is no longer a key
  | ranOff         -- walked off the list: `return None`
  | stop (x : Int) -- loop condition became false at x

/-- the two `while` loops of `intermediate_pose` (Trajectories.py:217-237), as a walk over the timestamps still to
  be visited, nearest first.  `far x` is `|timestamp - x| > max_interval`; `hasDev x` is
  `self.__getitem__(x).__contains__(device_id)` (`none` = KeyError). -/
def scan (hasDev : Int → Option Bool) (far : Int → Bool) : List Int → Scan
  | [] => Scan.ranOff
  | x :: xs =>
    if far x then Scan.stop x else
    match hasDev x with
    | Option.none => Scan.err
    | some true => Scan.stop x
    | some false => scan hasDev far xs

def entry (s : State P) (ts : Int) (dev : String) : Option P :=
  (Dict.get? ts s.data).bind (Dict.get? dev)

/-- the part of `intermediate_pose` after the stored-pose shortcut, as a function of what it reads:
  `ent` = `self[x][dev]` if any, `pres x` = `x in self`, `l` = the list returned by `timestamps_sorted_list()` -/
def interpCore (ent : Int → String → Option P) (pres : Int → Bool) (l : List Int)
    (ts : Int) (dev : String) (maxI : Int) : Out P :=
  -- `self.__getitem__(x).__contains__(device_id)`; KeyError when x is not a key
  let hasDev : Int → Option Bool := fun x => if pres x then some (ent x dev).isSome else Option.none
  match l.head?, l.getLast? with
  | some first, some last =>
    if l.length < 2 || ts ≤ first || ts ≥ last then Out.none else
    -- bisect_left on a sorted list: the elements < ts come first
    let before := (l.takeWhile (· < ts)).reverse
    let after := l.dropWhile (· < ts)
    match before, after with
    | _ :: _, _ :: _ =>
      match scan hasDev (fun x => ts - x > maxI) before with
      | Scan.err => Out.keyError
      | Scan.ranOff => Out.none
      | Scan.stop prev =>
        if ts - prev > maxI then Out.none else
        match scan hasDev (fun x => x - ts > maxI) after with
        | Scan.err => Out.keyError
        | Scan.ranOff => Out.none
        | Scan.stop next =>
          if next - ts > maxI then Out.none else
          match ent prev dev, ent next dev with
          | some lp, some up => Out.interp prev lp next up ts
          | _, _ => Out.keyError
    | _, _ => Out.indexError
  | _, _ => Out.none

/-- `intermediate_pose` (Trajectories.py:188-243, with the D3 fix) -/
def interpolate (s : State P) (ts : Int) (dev : String) (maxI : Int) : State P × Out P :=
  match entry s ts dev with
  | some p => (s, Out.pose p)
  | Option.none =>
    let s' := refresh s
    (s', interpCore (entry s') (fun x => Dict.has x s'.data) s'.cache ts dev maxI)

def keyPairsOf (d : Data P) : List (Int × String) :=
  d.flatMap (fun tsInner => (Dict.keys tsInner.2).map (fun dev => (tsInner.1, dev)))

def step (s : State P) : Op P → State P × Out P
  | Op.setPair ts dev p =>
    -- self.setdefault(timestamp, {})[device_id] = value ; cache reset
    let inner := (Dict.get? ts s.data).getD []
    ({ data := Dict.set ts (Dict.set dev p inner) s.data, cache := [] }, Out.ok)
  | Op.setTs ts inner =>
    ({ data := Dict.set ts (Dict.ofList inner) s.data, cache := [] }, Out.ok)
  | Op.delPair ts dev =>
    match Dict.get? ts s.data with
    | Option.none => (s, Out.keyError)
    | some inner =>
      if Dict.has dev inner then
        let inner' := Dict.erase dev inner
        if inner'.isEmpty then ({ data := Dict.erase ts s.data, cache := [] }, Out.ok)
        else ({ s with data := Dict.set ts inner' s.data }, Out.ok)
      else (s, Out.keyError)
  | Op.delTs ts =>
    if Dict.has ts s.data then ({ data := Dict.erase ts s.data, cache := [] }, Out.ok) else (s, Out.keyError)
  | Op.hasPair ts dev =>
    (s, Out.bool (match Dict.get? ts s.data with
      | Option.none => false
      | some inner => Dict.has dev inner))
  | Op.hasTs ts => (s, Out.bool (Dict.has ts s.data))
  | Op.getPair ts dev =>
    match entry s ts dev with
    | some p => (s, Out.pose p)
    | Option.none => (s, Out.keyError)
  | Op.sortedList => let s' := refresh s; (s', Out.ints s'.cache)
  | Op.tsLength => let s' := refresh s; (s', tsLengthOf s'.cache)
  | Op.keyPairs => (s, Out.pairs (keyPairsOf s.data))
  | Op.interp ts dev maxI => interpolate s ts dev maxI

/-- run a whole history from a state, collecting outputs -/
def run (s : State P) : List (Op P) → State P × List (Out P)
  | [] => (s, [])
  | op :: ops =>
    let r := step s op
    let rest := run r.1 ops
    (rest.1, r.2 :: rest.2)

end Kapture.C07
