/-
  Model/C09.lean — kapture/algo/merge_keep_ids.py, the feature/match merges of merge_reconstruction.py and
  merge_records_data.py.

  A table (Sensors, Rigs, Trajectories, every Records* kind) is its `kapture.flatten` image: an association list from
  the key tuple (1, 2 or 3 components, rendered as strings) to the entry (a canonical string).  With that reading the
  three helpers merge_table_key1/2/3 are the same function: walk the inputs in order, walk each input's entries in
  order, insert unless the key is already there (key3: `setdefault` on the inner record dict).
  Which helper each part uses, and under which skip_list guard each attribute of the result is assigned, comes from
  Gen/MergeDispatch.lean (read from the source on every run).
-/
import Kapture.Base.Dict
import Kapture.Gen.MergeDispatch

namespace Kapture.C09
open Kapture

abbrev Key := List String
abbrev Table := List (Key × String)

/-- merge_table_key1/2/3 (merge_keep_ids.py:19-99): first definition of a key wins; `None` inputs are skipped -/
def mergeTable (ts : List (Option Table)) : Table :=
  ts.foldl (fun acc t =>
    match t with
    | none => acc
    | some t => t.foldl (fun acc kv => if Dict.has kv.1 acc then acc else Dict.set kv.1 kv.2 acc) acc) []

/-- get_new_if_not_empty(new, None) -/
def getNewIfNotEmpty {α : Type} (t : List α) : Option (List α) := if t.isEmpty then none else some t

/-- evaluation of a generated guard: alternatives of conjunctions of tests on skip_list -/
def guardHolds (skip : List String) (alts : List (List (String × List String))) : Bool :=
  alts.any (fun path => path.all (fun test =>
    let allNotSkipped := test.2.all (fun t => !skip.contains t)
    if test.1 == "not-skipped" then allNotSkipped else !allNotSkipped))

def guardsOf (attr : String) : List (List (String × List String)) :=
  (Dict.get? attr Gen.MergeDispatch.keepGuards).getD []

/-- one input dataset: its simple tables by attribute name (missing or `none` = part absent) -/
abbrev Input := List (String × Option Table)

def part (i : Input) (attr : String) : Option Table := (Dict.get? attr i).join

/-- the twelve table parts of merge_keep_ids (merge_keep_ids.py:321-398) -/
def mergeSimple (skip : List String) (inputs : List Input) : List (String × Option Table) :=
  Gen.MergeDispatch.keepArity.map (fun e =>
    (e.1, if guardHolds skip (guardsOf e.1) then getNewIfNotEmpty (mergeTable (inputs.map (fun i => part i e.1))) else none))

-- image features ----------------------------------------------------------------------------------------------------

structure FeatSet where
  config : String           -- (dtype, dsize[, keypoints_type][, metric_type]) as one canonical string
  images : List String
deriving Repr

abbrev FeatColl := List (String × FeatSet)    -- feature type name ↦ set

/-- the union of feature types over the inputs, in order of first appearance (python iterates a set: order free) -/
def featTypes (inputs : List (Option FeatColl)) : List String :=
  inputs.foldl (fun acc c =>
    match c with
    | none => acc
    | some c => c.foldl (fun acc e => if acc.contains e.1 then acc else acc ++ [e.1]) acc) []

/-- _merge_image_features (merge_reconstruction.py:19-91) for one type: the configuration of the first input having
  the type, and each image name with the index of the input its file is taken from (the first one listing it) -/
def mergeFeatType (ty : String) (inputs : List (Option FeatColl)) : Option String × List (String × Nat) :=
  let sets : List (Nat × FeatSet) := (inputs.zipIdx.filterMap (fun ci =>
    match ci.1 with
    | none => none
    | some c => (Dict.get? ty c).map (fun s => (ci.2, s))))
  let cfg := sets.head?.map (fun s => s.2.config)
  let imgs := sets.foldl (fun acc is_ =>
    is_.2.images.foldl (fun acc name => if Dict.has name acc then acc else Dict.set name is_.1 acc) acc) []
  (cfg, imgs)

/-- _merge_image_features_collection -/
def mergeFeat (inputs : List (Option FeatColl)) : List (String × Option String × List (String × Nat)) :=
  (featTypes inputs).map (fun ty => (ty, mergeFeatType ty inputs))

-- matches -----------------------------------------------------------------------------------------------------------

abbrev MatchColl := List (String × List (String × String))    -- keypoints type ↦ pairs

def matchTypes (inputs : List (Option MatchColl)) : List String :=
  inputs.foldl (fun acc c =>
    match c with
    | none => acc
    | some c => c.foldl (fun acc e => if acc.contains e.1 then acc else acc ++ [e.1]) acc) []

/-- merge_matches (merge_reconstruction.py:222-262): each pair with the index of the input its file comes from -/
def mergeMatchType (ty : String) (inputs : List (Option MatchColl)) : List ((String × String) × Nat) :=
  inputs.zipIdx.foldl (fun acc ci =>
    match ci.1 with
    | none => acc
    | some c =>
      match Dict.get? ty c with
      | none => acc
      | some pairs => pairs.foldl (fun acc p => if Dict.has p acc then acc else Dict.set p ci.2 acc) acc) []

def mergeMatches (inputs : List (Option MatchColl)) : List (String × List ((String × String) × Nat)) :=
  (matchTypes inputs).map (fun ty => (ty, mergeMatchType ty inputs))

-- record data files ---------------------------------------------------------------------------------------------------

/-- merge_records_data (merge_records_data.py:8-32): each file name is imported from the first input listing it -/
def mergeRecordFiles (lists : List (List String)) : List (String × Nat) :=
  lists.zipIdx.foldl (fun acc li =>
    li.1.foldl (fun acc name => if Dict.has name acc then acc else Dict.set name li.2 acc) acc) []

end Kapture.C09
