/-
  Model/C13.lean — the discrete plumbing and arithmetic core of the COLMAP converter
  (kapture/converter/colmap/*.py): camera model table, identifier assignment, pair-id arithmetic and the match column
  swap, the points / tracks text, and the world pose of rig-mounted cameras.

  Pair-id arithmetic is NOT written here: `toPairId`, `ofPairId`, `maxImageId` are generated from
  kapture/converter/colmap/database.py on every run (Gen/PairId.lean).  Pose arithmetic is Model/C05 (`compose2`),
  rig removal is Model/C06 (`remove`).

  Numbers that only pass through (camera parameters, 3-D coordinates, colours) are opaque tokens (`String`): the
  harness uses `float.hex()` of the value.  Match and feature indices are `Nat`, identifiers `Int` (as in Gen/PairId).

  Outside this model (exercised by the full export -> import loops only): SQLite, the text writers/readers, numpy
  blobs and dtype casts, float printing/parsing, the csv loader.  No Mathlib.
-/
import Kapture.Gen.PairId
import Kapture.Gen.ColmapCameras
import Kapture.Model.C05
import Kapture.Model.C06

namespace Kapture.C13
open Kapture Kapture.Gen.PairId

/-! ## camera model table (cameras.py:10-22) -/

/-- `CAMERA_MODEL_NAME_ID` as (name, colmap model id, number of projection parameters after width and height): GENERATED from the
  live table of cameras.py and kapture's `CAMERA_TYPE_PARAMS_COUNT_FROM_NAME` on every run (Gen/ColmapCameras.lean) -/
def cameraModels : List (String × Nat × Nat) := Gen.ColmapCameras.cameraModels

/-- `CAMERA_MODEL_IDS[name]` (cameras.py:25) -/
def modelIdIn : List (String × Nat × Nat) → String → Option Nat
  | [], _ => none
  | (n, i, _) :: r, name => if n = name then some i else modelIdIn r name

/-- `CAMERA_MODEL_NAMES[id]` (cameras.py:24) -/
def modelNameIn : List (String × Nat × Nat) → Nat → Option String
  | [], _ => none
  | (n, i, _) :: r, id => if i = id then some n else modelNameIn r id

def paramCountIn : List (String × Nat × Nat) → String → Option Nat
  | [], _ => none
  | (n, _, c) :: r, name => if n = name then some c else paramCountIn r name

def modelId? (name : String) : Option Nat := modelIdIn cameraModels name
def modelName? (id : Nat) : Option String := modelNameIn cameraModels id
def paramCount? (name : String) : Option Nat := paramCountIn cameraModels name

/-- a kapture camera: `camera_type.value` and `camera_params` (width, height, projection parameters) -/
structure Camera where
  model : String
  params : List String
deriving DecidableEq, Repr

/-- a row of the colmap `cameras` table / a line of cameras.txt -/
structure ColmapCamera where
  modelId : Nat
  width : String
  height : String
  params : List String
deriving DecidableEq, Repr

/-- `get_colmap_camera` (cameras.py:43-68) on the models COLMAP knows: parameters pass through.
  UNKNOWN_CAMERA (cameras.py:55-61, invented SIMPLE_RADIAL parameters) is outside the property and reported as such. -/
def exportCamera (c : Camera) : Except String ColmapCamera :=
  match c.params with
  | w :: h :: rest =>
    if c.model = "UNKNOWN_CAMERA" then Except.error "unknown-camera"
    else match modelId? c.model with
      | some i => Except.ok { modelId := i, width := w, height := h, params := rest }
      | none => Except.error "ValueError"                       -- cameras.py:66-67
  | _ => Except.error "AssertionError"                          -- cameras.py:51

/-- `get_cameras_from_database` (import_colmap_database.py:33-49; an unknown id falls back to model 0) and the
  cameras.txt pair export_colmap_reconstruction.py:44-50 / import_colmap_reconstruction.py:36-46 (the text carries
  `CAMERA_MODEL_NAMES[id]`) -/
def importCamera (c : ColmapCamera) : Camera :=
  { model := (modelName? c.modelId).getD "SIMPLE_PINHOLE", params := c.width :: c.height :: c.params }

/-- `add_cameras_to_database` (database_extra.py:327-351): one `cameras` row per camera, identifiers k, k+1, ... in
  insertion order; a camera that cannot be converted aborts the export -/
def exportCamerasFrom (k : Int) : List (String × Camera) → Except String (List (Int × ColmapCamera))
  | [] => Except.ok []
  | (_, c) :: r =>
    match exportCamera c, exportCamerasFrom (k + 1) r with
    | Except.ok cc, Except.ok rest => Except.ok ((k, cc) :: rest)
    | Except.error e, _ => Except.error e
    | _, Except.error e => Except.error e

def exportCameras (cams : List (String × Camera)) : Except String (List (Int × ColmapCamera)) := exportCamerasFrom 1 cams

/-- the `cameras` row with a given id -/
def cameraRow? : List (Int × ColmapCamera) → Int → Option ColmapCamera
  | [], _ => none
  | (i, c) :: r, id => if i = id then some c else cameraRow? r id

/-! ## identifier assignment -/

/-- sqlite AUTOINCREMENT on an empty table: rows get k, k+1, ... in insertion order -/
def assignFrom (k : Int) : List String → List (String × Int)
  | [] => []
  | n :: ns => (n, k) :: assignFrom (k + 1) ns

/-- `add_images_from_list_in_colmap_format` (database_extra.py:404-421) and `add_cameras_to_database`
  (database_extra.py:327-351): identifiers 1, 2, 3, ... in insertion order -/
def assignIds (names : List String) : List (String × Int) := assignFrom 1 names

/-- `colmap_image_ids[name]` -/
def idOf? : List (String × Int) → String → Option Int
  | [], _ => none
  | (n, i) :: r, name => if n = name then some i else idOf? r name

/-- the import side: `records_camera[image_id]` (timestamp = colmap image id, import_colmap_database.py:72-74) -/
def nameOf? : List (String × Int) → Int → Option String
  | [], _ => none
  | (n, i) :: r, id => if i = id then some n else nameOf? r id

/-- insertion into a list ordered by `lt` -/
def insertBy {α : Type} (lt : α → α → Bool) (x : α) : List α → List α
  | [] => [x]
  | y :: ys => if lt x y then x :: y :: ys else y :: insertBy lt x ys

def sortBy {α : Type} (lt : α → α → Bool) (l : List α) : List α := l.foldr (insertBy lt) []

/-- a record of records_camera: (timestamp, sensor id, image name) -/
abbrev Record := Int × String × String

/-- records_camera.txt is written sorted by (timestamp, sensor id) (io/csv.py:467) and read back in file order -/
def recLt (a b : Record) : Bool := a.1 < b.1 || (a.1 == b.1 && a.2.1 < b.2.1)

/-- image names in the order `kapture.flatten(records_camera)` yields them at export time -/
def imageOrder (records : List Record) : List String := (sortBy recLt records).map (fun r => r.2.2)

def imageIds (records : List Record) : List (String × Int) := assignIds (imageOrder records)

/-- `get_camera_kapture_id_from_colmap_id` is injective text formatting (`cam_%05d`); the model keeps the number -/
def cameraIds (sensorIds : List String) : List (String × Int) := assignIds sensorIds

/-- the camera an imported image points to: `images.camera_id` (database_extra.py:381-383) -> `cameras` row ->
  kapture camera `cam_<id>` (import_colmap_database.py:41-49, 72-74) -/
def imageCamera (camIds : List (String × Int)) (db : List (Int × ColmapCamera)) (sensor : String) : Option Camera :=
  match idOf? camIds sensor with
  | some i => (cameraRow? db i).map importCamera
  | none => none

/-! ## matches: pair id and column swap -/

abbrev MatchRows := List (Nat × Nat)

/-- `matches[:, ::-1]` -/
def swapCols (rows : MatchRows) : MatchRows := rows.map (fun r => (r.2, r.1))

/-- `COLMAPDatabase.add_matches` (database.py:196-207): columns swapped when id1 > id2, key = pair id -/
def addMatches (id1 id2 : Int) (rows : MatchRows) : Int × MatchRows :=
  (toPairId id1 id2, if id1 > id2 then swapCols rows else rows)

/-- one iteration of `add_matches_to_database` (database_extra.py:574-587) for a pair in lexical name order
  (`matches.normalize()`, database_extra.py:572); `none` = KeyError on an unregistered image name -/
def exportMatch (ids : List (String × Int)) (m : (String × String) × MatchRows) : Option (Int × MatchRows) :=
  match idOf? ids m.1.1, idOf? ids m.1.2 with
  | some i1, some i2 => some (addMatches i1 i2 m.2)
  | _, _ => none

/-- `Matches.lexical_order` (core/Matches.py:11-18) -/
def lexicalOrder (a b : String) : String × String := if a < b then (a, b) else (b, a)

/-- one iteration of `get_matches_from_database` (import_colmap_database.py:281-306): ids from the pair id, names from
  the ids, columns swapped back when the names are not in lexical order; `none` = 'inconsistent image ID', skipped -/
def importMatch (ids : List (String × Int)) (row : Int × MatchRows) : Option ((String × String) × MatchRows) :=
  let p := ofPairId row.1
  match nameOf? ids p.1, nameOf? ids p.2 with
  | some f1, some f2 =>
    if (f1, f2) ≠ lexicalOrder f1 f2 then some (lexicalOrder f1 f2, swapCols row.2) else some ((f1, f2), row.2)
  | _, _ => none

def exportMatches (ids : List (String × Int)) (ms : List ((String × String) × MatchRows)) : List (Int × MatchRows) :=
  ms.filterMap (exportMatch ids)

def importMatches (ids : List (String × Int)) (rows : List (Int × MatchRows)) : List ((String × String) × MatchRows) :=
  rows.filterMap (importMatch ids)

/-! ## points3D.txt: points and tracks -/

abbrev Row := List String

/-- the token of `0.0` (colour of a colour-less point after the loop) -/
def zeroTok : String := "0x0.0p+0"

/-- a line of points3D.txt: POINT3D_ID, X Y Z, R G B, (ERROR,) TRACK[] as (IMAGE_ID, POINT2D_IDX) -/
structure PointLine where
  id : Nat
  xyz : List String
  rgb : List String
  track : List (Int × Nat)
deriving DecidableEq, Repr

/-- traverse with failure (a KeyError aborts the export) -/
def optMap {α β : Type} (f : α → Option β) : List α → Option (List β)
  | [] => some []
  | a :: as =>
    match f a, optMap f as with
    | some b, some bs => some (b :: bs)
    | _, _ => none

/-- one line of `export_to_colmap_points3d_txt` (export_colmap_reconstruction.py:146-172); a 3-column point is
  written black; `none` = KeyError on an image name without colmap id -/
def exportPoint (ids : List (String × Int)) (i : Nat) (row : Row) (track : List (String × Nat)) : Option PointLine :=
  match optMap (fun o => (idOf? ids o.1).map (fun id => (id, o.2))) track with
  | some tr => some { id := i, xyz := row.take 3,
                      rgb := if row.length = 6 then row.drop 3 else [zeroTok, zeroTok, zeroTok], track := tr }
  | none => none

/-- the loop `for i in range(points3d.shape[0])` starting at index `i` -/
def exportPointsFrom (ids : List (String × Int)) : Nat → List (Row × List (String × Nat)) → Option (List PointLine)
  | _, [] => some []
  | i, (row, track) :: rest =>
    match exportPoint ids i row track, exportPointsFrom ids (i + 1) rest with
    | some l, some ls => some (l :: ls)
    | _, _ => none

def exportPoints (ids : List (String × Int)) (pts : List (Row × List (String × Nat))) : Option (List PointLine) :=
  exportPointsFrom ids 0 pts

/-- one line of `import_from_colmap_points3d_txt` (import_colmap_reconstruction.py:152-158): the point is indexed by
  its line position (`enumerate`), not by the written id; the image name comes from the images of images.txt (those
  with a pose: import_colmap.py:149-150), 'unknown' otherwise -/
def importPoint (posedIds : List (String × Int)) (l : PointLine) : Row × List (String × Nat) :=
  (l.xyz ++ l.rgb, l.track.map (fun o => ((nameOf? posedIds o.1).getD "unknown", o.2)))

def importPoints (posedIds : List (String × Int)) (ls : List PointLine) : List (Row × List (String × Nat)) :=
  ls.map (importPoint posedIds)

/-! ## poses -/

section poses
variable {K : Type} [Add K] [Sub K] [Mul K] [Div K] [Neg K] [OfNat K 0] [OfNat K 1] [OfNat K 2] [DecidableEq K]

abbrev Traj (K : Type) := List (C06.Entry (C05.Pose K))

/-- export_colmap.py:78-82: `rigs_remove_inplace(trajectories, rigs)` with its default `max_depth = 10`;
  a rig entry becomes one entry per member at `compose([member_from_rig, rig_from_world])` -/
def exportTrajectory (rigs : C06.Rigs (C05.Pose K)) (traj : Traj K) : Traj K :=
  C06.remove C05.compose2 rigs 10 traj

/-- `trajectories[timestamp].get(sensor_id)` (export_colmap_reconstruction.py:86-98) -/
def poseOf? : Traj K → Int → String → Option (C05.Pose K)
  | [], _, _ => none
  | e :: r, ts, dev => if e.ts = ts ∧ e.dev = dev then some e.g else poseOf? r ts dev

/-- the images written to images.txt, with their pose (qw qx qy qz tx ty tz, world to camera): those whose
  (timestamp, sensor) has one -/
def posedImages (traj : Traj K) (records : List Record) : List (String × C05.Pose K) :=
  records.filterMap (fun r => (poseOf? traj r.1 r.2.1).map (fun p => (r.2.2, p)))

end poses

/-- the image-id table the reconstruction import sees: ids of the images that have a line in images.txt -/
def posedIds (ids : List (String × Int)) (posedNames : List String) : List (String × Int) :=
  ids.filter (fun e => posedNames.contains e.1)

end Kapture.C13
