/-
  Model/C05.lean — kapture/core/PoseTransform.py as pure functions.
  `rot` uses the two generated branches of `_as_rotation_matrix_njit` (Gen/RotMat.lean).
  The implementation takes the unit branch when |q_norm-1| < 1e-14 in double arithmetic; the exact model
  takes it when q_norm = 1.  The open shell 0 < |q_norm-1| < 1e-14 is outside the exact theorems (DESIGN §6 C05):
  there both formulas differ by a relative 1e-14, far inside the 1e-9 the property states.
-/
import Kapture.Base.Vec
import Kapture.Gen.RotMat

namespace Kapture.C05
open Kapture Kapture.Gen.RotMat

variable {K : Type} [Add K] [Sub K] [Mul K] [Div K] [Neg K] [OfNat K 0] [OfNat K 1] [OfNat K 2] [DecidableEq K]

/-- `_as_rotation_matrix_njit(q, rot_mat)` -/
def rot (q : Quat K) : M3 K :=
  if qnorm q = 1 then rotUnit q else rotNorm q (qnorm q)

/-- a pose with both parts present (PoseTransform.py:28-64, r and t not None) -/
structure Pose (K : Type) where
  r : Quat K
  t : V3 K
deriving DecidableEq, Repr

/-- one step of the loop of `PoseTransform.compose` (PoseTransform.py:133-146) -/
def compose2 (a b : Pose K) : Pose K :=
  { r := Quat.mul a.r b.r
    t := V3.add (M3.mulVec (rot a.r) b.t) a.t }

/-- `PoseTransform.compose(pose_list)`: `pose_list[0]` folded with the rest from the left; empty list is an
  IndexError in the implementation, `none` here. -/
def compose : List (Pose K) → Option (Pose K)
  | [] => none
  | p :: ps => some (ps.foldl compose2 p)

/-- `PoseTransform.inverse` (PoseTransform.py:94-108) -/
def inverse (p : Pose K) : Pose K :=
  { r := Quat.inv p.r
    t := M3.mulVec (rot (Quat.inv p.r)) (V3.mulNegOne p.t) }

def identity : Pose K := { r := Quat.one, t := V3.zero }

/-- `PoseTransform.rescale(scale)` (PoseTransform.py:109-116): the translation is multiplied; the only method that changes a
  pose IN PLACE -/
def rescale (s : K) (p : Pose K) : Pose K := { r := p.r, t := ⟨s * p.t.x, s * p.t.y, s * p.t.z⟩ }

/-- a history over a pool of pose OBJECTS: results of inverse / compose join the pool, rescale changes one object in place -/
inductive HistOp (K : Type) where
  | inverse (src : Nat)
  | rescale (idx : Nat) (s : K)
  | compose (idxs : List Nat)

def histStep (pool : List (Pose K)) : HistOp K → List (Pose K)
  | HistOp.inverse i => match pool[i]? with
    | some p => pool ++ [inverse p]
    | none => pool
  | HistOp.rescale i s => match pool[i]? with
    | some p => pool.set i (rescale s p)
    | none => pool
  | HistOp.compose is => match compose (is.filterMap (fun i => pool[i]?)) with
    | some c => pool ++ [c]
    | none => pool

def runHist (pool : List (Pose K)) (ops : List (HistOp K)) : List (Pose K) := ops.foldl histStep pool

/-- one row of `transform_points` (PoseTransform.py:148-166) -/
def transform (p : Pose K) (x : V3 K) : V3 K :=
  V3.add (M3.mulVec (rot p.r) x) p.t

/-- a row of the N x 3 / N x 6 input: colour columns are dropped (`points3d[:, 0:3]`) -/
structure Row (K : Type) where
  xyz : V3 K
  rgb : Option (V3 K)

def transformPoints (p : Pose K) (rows : List (Row K)) : List (V3 K) :=
  rows.map (fun r => transform p r.xyz)

end Kapture.C05
