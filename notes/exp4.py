import sys, os, tempfile, numpy as np, warnings, shutil, io, json
warnings.filterwarnings('ignore')
import kapture, kapture.io.csv as kcsv
from kapture.io.features import *
from kapture.converter.opensfm.export_opensfm import export_opensfm
from kapture.converter.opensfm.import_opensfm import import_opensfm
from kapture.io.records import TransferAction
def tryit(name, f):
    try:
        print(name, '->', f())
    except Exception as e:
        import traceback; traceback.print_exc()
        print(name, 'EXC', type(e).__name__, e)
root = tempfile.mkdtemp(dir='/tmp/scratch')
kd = root+'/k'
k = kapture.Kapture(sensors=kapture.Sensors(), records_camera=kapture.RecordsCamera(), trajectories=kapture.Trajectories())
k.sensors['cam'] = kapture.Camera('SIMPLE_RADIAL',[640,480,500,320,240,0.1])
names = [f'img{i}.jpg' for i in range(3)]
for i,n in enumerate(names):
    k.records_camera[i,'cam'] = n
    k.trajectories[i,'cam'] = kapture.PoseTransform(r=[0.5,0.5,-0.5,0.5], t=[i,2,3])
    os.makedirs(kd+'/sensors/records_data', exist_ok=True); open(kd+'/sensors/records_data/'+n,'w').write('x')
k.points3d = kapture.Points3d(np.array([[i, i, i, i, i, i] for i in range(12)], dtype=float))
with_feat = len(sys.argv) > 1
if with_feat:
    k.keypoints = {'kp': kapture.Keypoints('kp', np.float32, 4, names)}
    k.descriptors = {'ds': kapture.Descriptors('ds', np.uint8, 8, 'kp', 'L2', names)}
    for n in names:
        image_keypoints_to_file(get_keypoints_fullpath('kp', kd, n), np.random.rand(5,4).astype(np.float32))
        image_descriptors_to_file(get_descriptors_fullpath('ds', kd, n), (np.random.rand(5,8)*255).astype(np.uint8))
    if sys.argv[1] == 'm':
        k.matches = {'kp': kapture.Matches([(names[0], names[1])])}
        image_matches_to_file(get_matches_fullpath((names[0], names[1]), 'kp', kd), np.array([[0,1,0.5],[2,3,0.7]]))
kcsv.kapture_to_dir(kd, k)
tryit('export', lambda: export_opensfm(kd, root+'/osfm', True, TransferAction.copy))
for dp, dn, fn in os.walk(root+'/osfm'):
    for f in fn: print('  ', os.path.relpath(os.path.join(dp,f), root))
tryit('import', lambda: import_opensfm(root+'/osfm', root+'/k2', True, TransferAction.copy, 'kp', 'ds'))
k2 = kcsv.kapture_from_dir(root+'/k2')
print('points col0', k2.points3d[:,0].tolist() if k2.points3d is not None else None)
print('kp', k2.keypoints, 'matches', k2.matches)
print('traj', [ (ts, s, p.r_raw, p.t_raw) for ts, s, p in kapture.flatten(k2.trajectories, True)][:1])
print('sensors', {s: v.sensor_params for s, v in k2.sensors.items()})
