import sys, os, tempfile, numpy as np, warnings, shutil, copy
warnings.filterwarnings('ignore')
import kapture, kapture.io.csv as kcsv
from kapture.algo.compare import equal_kapture, equal_sets, equal_matches
import kapture.algo.merge_keep_ids as mk
import kapture.algo.merge_remap as mr
from kapture.algo.merge_reconstruction import merge_points3d_and_observations, merge_keypoints_collections
def tryit(name, f):
    try:
        print(name, '->', f())
    except Exception as e:
        print(name, 'EXC', type(e).__name__, e)
# C08
a = kapture.Matches({('a','b')}); b = kapture.Matches({('a','b'),('a','c')})
print('equal_matches(a,b)', equal_matches(a,b), 'equal_matches(b,a)', equal_matches(b,a))
ka = kapture.Kapture(sensors=kapture.Sensors()); kb = kapture.Kapture(sensors=kapture.Sensors())
ka.sensors['d'] = kapture.Camera('SIMPLE_PINHOLE',[1,1,1,1,1], sensor_type='depth'); kb.sensors['d'] = kapture.Camera('SIMPLE_PINHOLE',[1,1,1,1,1], sensor_type='depth')
ka.records_depth = kapture.RecordsDepth(); ka.records_depth[0,'d']='x.depth'
kb.records_depth = kapture.RecordsDepth(); kb.records_depth[0,'d']='y.depth'
print('equal_kapture depth differs ->', equal_kapture(ka,kb))
# C09 rigs
r1 = kapture.Rigs(); r1['rig','cam'] = kapture.PoseTransform(t=[1,0,0])
r2 = kapture.Rigs(); r2['rig','cam'] = kapture.PoseTransform(t=[2,0,0])
print('merge_rigs first wins? ->', mk.merge_rigs([r1,r2])['rig','cam'].t_raw)
# C09 features alias
k1 = {'sift': kapture.Keypoints('sift', np.float32, 4, ['a.jpg'])}
k2 = {'sift': kapture.Keypoints('sift', np.float32, 4, ['b.jpg'])}
m = merge_keypoints_collections([k1,k2], ['',''], '', [None,None])
print('merged', sorted(m['sift']), 'input1 after', sorted(k1['sift']), 'same obj', m['sift'] is k1['sift'])
# C11
p3 = kapture.Points3d(np.ones((2,3)))
tryit('merge Nx3', lambda: merge_points3d_and_observations([(p3, None), (p3,None)])[0].shape)
p6 = kapture.Points3d(np.ones((2,6)))
tryit('merge Nx6', lambda: merge_points3d_and_observations([(p6, None), (p6,None)])[0].shape)
# C10
def mk_k(with_records):
    k = kapture.Kapture(sensors=kapture.Sensors())
    k.sensors['cam'] = kapture.Camera('SIMPLE_PINHOLE',[1,1,1,1,1])
    if with_records:
        k.records_camera = kapture.RecordsCamera(); k.records_camera[0,'cam'] = 'a.jpg'
    return k
tryit('remap: [no records, records]', lambda: dict(mr.merge_remap([mk_k(False), mk_k(True)], [], ['',''], [None,None], '', kapture.io.records.TransferAction.skip).records_camera))
ka2 = mk_k(False); ka2.sensors['cam2']=kapture.Camera('SIMPLE_PINHOLE',[1,1,1,1,1])
def two():
    kA = kapture.Kapture(sensors=kapture.Sensors()); kA.sensors['x']=kapture.Camera('SIMPLE_PINHOLE',[1,1,1,1,1]); kA.sensors['cam']=kapture.Camera('SIMPLE_PINHOLE',[1,1,1,1,1])
    kB = mk_k(True)
    out = mr.merge_remap([kA,kB], [], ['',''], [None,None], '', kapture.io.records.TransferAction.skip)
    return dict(out.records_camera), {k:v.sensor_params for k,v in out.sensors.items()}
tryit('remap misattribution', two)
