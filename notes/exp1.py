import sys, os, tempfile, numpy as np, warnings
warnings.filterwarnings('ignore')
import kapture, kapture.io.csv as kcsv
from kapture.utils.computation import num_digits
print('num_digits(99999999999999999)=', num_digits(99999999999999999), 'len', len('99999999999999999'))
print('num_digits(9999999999999999)=', num_digits(9999999999999999))
print('num_digits(-120)=', num_digits(-120), num_digits(0))
# Trajectories interpolation
t = kapture.Trajectories()
for q in [(5,'a')]:
    t[q] = kapture.PoseTransform()
for ts in [7, 3, 5]:
    try:
        print('single ts query', ts, t.intermediate_pose(ts, 'a', 100))
    except Exception as e:
        print('single ts query', ts, 'EXC', type(e).__name__, e)
t = kapture.Trajectories()
for ts in [7, 0, -3]:
    try:
        print('empty query', ts, t.intermediate_pose(ts, 'a', 100))
    except Exception as e:
        print('empty query', ts, 'EXC', type(e).__name__, e)
# stale
t = kapture.Trajectories()
for ts in [1,5,10]:
    t[ts,'a'] = kapture.PoseTransform(t=[ts,0,0])
print('interp 7', t.intermediate_pose(7,'a',100))
del t[10]
del t[5]
try:
    print('after deletes: q 3', t.intermediate_pose(3,'a',100))
except Exception as e: print('EXC', type(e).__name__, e)
try:
    print('after deletes: q 7', t.intermediate_pose(7,'a',100))
except Exception as e: print('EXC', type(e).__name__, e)
# negative timestamps
t = kapture.Trajectories()
for ts in [-10,-5]:
    t[ts,'a'] = kapture.PoseTransform(t=[ts,0,0])
print('neg interp -7', t.intermediate_pose(-7,'a',100))
t = kapture.Trajectories()
for ts in [-10,5]:
    t[ts,'a'] = kapture.PoseTransform(t=[ts,0,0])
print('neg/pos interp 0', t.intermediate_pose(0,'a',100), ' interp 2', t.intermediate_pose(2,'a',100))
# first_timestamp stale: [1,5,10] query, then add 0.. 
t = kapture.Trajectories()
for ts in [5,10]:
    t[ts,'a'] = kapture.PoseTransform(t=[ts,0,0])
print(t.intermediate_pose(7,'a',100))
t[1,'a'] = kapture.PoseTransform(t=[1,0,0])
print('after insert 1: q 3 ->', t.intermediate_pose(3,'a',100))
t[20,'a'] = kapture.PoseTransform(t=[20,0,0])
print('after insert 20: q 15 ->', t.intermediate_pose(15,'a',100))
