import sys, os, tempfile, numpy as np, warnings, shutil, io, json, quaternion
warnings.filterwarnings('ignore')
import kapture, kapture.io.csv as kcsv
from kapture.io.features import *
from kapture.converter.colmap.export_colmap import export_colmap
from kapture.converter.colmap.import_colmap import import_colmap
from kapture.converter.openmvg.export_openmvg import export_openmvg
from kapture.converter.openmvg.import_openmvg import import_openmvg
from kapture.io.records import TransferAction
root = tempfile.mkdtemp(dir='/tmp/scratch')
src = '/repo/samples/maupertuis/kapture'
k = kcsv.kapture_from_dir(src)
print({n: (len(v) if v is not None else None) for n, v in k.as_dict(True).items()})
print(k.sensors, k.keypoints.keys(), k.descriptors.keys() if k.descriptors else None)
export_colmap(src, root+'/colmap.db', root+'/rec', force_overwrite_existing=True)
k2 = import_colmap(root+'/k2', root+'/colmap.db', root+'/rec', force_overwrite_existing=True, images_import_strategy=TransferAction.skip, keypoints_type='SIFT', descriptors_type='SIFT')
print({n: (len(v) if v is not None else None) for n, v in k2.as_dict(True).items()})
# compare by image name
n2p = {n: k.trajectories[ts, s] for ts, s, n in kapture.flatten(k.records_camera) if (ts, s) in k.trajectories}
n2p2 = {n: k2.trajectories[ts, s] for ts, s, n in kapture.flatten(k2.records_camera) if (ts, s) in k2.trajectories}
print('pose names equal', set(n2p)==set(n2p2), 'pose exact', all(n2p[n].r_raw==n2p2[n].r_raw and n2p[n].t_raw==n2p2[n].t_raw for n in n2p))
print('points equal', np.array_equal(k.points3d.as_array(), k2.points3d.as_array()))
o1 = sorted((pid, n, f) for pid, kt, (n, f) in kapture.flatten(k.observations)); o2 = sorted((pid, n, f) for pid, kt, (n, f) in kapture.flatten(k2.observations))
print('obs equal', o1==o2, len(o1), len(o2))
kt = list(k.keypoints)[0]
for n in list(k.keypoints[kt])[:2]:
    a = image_keypoints_from_file(get_keypoints_fullpath(kt, src, n), k.keypoints[kt].dtype, k.keypoints[kt].dsize)
    b = image_keypoints_from_file(get_keypoints_fullpath('SIFT', root+'/k2', n), k2.keypoints['SIFT'].dtype, k2.keypoints['SIFT'].dsize)
    print('kp', a.shape, b.shape, np.array_equal(a[:, :b.shape[1]], b))
for p in list(k.matches[kt])[:2]:
    a = image_matches_from_file(get_matches_fullpath(p, kt, src)); b = image_matches_from_file(get_matches_fullpath(p, 'SIFT', root+'/k2'))
    print('m', p in k2.matches['SIFT'], np.array_equal(a[:, :2], b[:, :2]))
# openmvg
export_openmvg(src, root+'/mvg/sfm_data.json', root+'/mvg/images', root+'/mvg/regions', root+'/mvg/matches.txt', TransferAction.skip, force=True)
import_openmvg(root+'/mvg/sfm_data.json', root+'/mvg/regions', root+'/mvg/matches.txt', root+'/k3', TransferAction.skip, True)
k3 = kcsv.kapture_from_dir(root+'/k3')
print({n: (len(v) if v is not None else None) for n, v in k3.as_dict(True).items()})
print(sorted(k3.records_camera.data_list())[:3], k3.keypoints.keys() if k3.keypoints else None)
n2p3 = {n: k3.trajectories[ts, s] for ts, s, n in kapture.flatten(k3.records_camera) if (ts, s) in k3.trajectories}
for n in list(n2p)[:2]:
    m = [x for x in n2p3 if x.endswith(n)][0]
    print(n, m, n2p[n], n2p3[m])
