import sys, os, tempfile, numpy as np, warnings, shutil, io, tarfile
warnings.filterwarnings('ignore')
import kapture, kapture.io.csv as kcsv
from kapture.io.structure import delete_existing_kapture_files
from kapture.converter.downloader.archives import untar_file
from kapture.io.binary import array_to_file, array_from_file
def tryit(name, f):
    try:
        print(name, '->', f())
    except Exception as e:
        print(name, 'EXC', type(e).__name__, e)
# C19
d = tempfile.mkdtemp(dir='/tmp/scratch')
os.makedirs(d+'/sensors'); open(d+'/sensors/sensors.txt','w').write('x')
open(d+'/sensors/trajectories.txt','w').write('x')
tryit('delete only=[Trajectories], no records_data', lambda: delete_existing_kapture_files(d, True, only=[kapture.Trajectories]))
print(sorted(os.listdir(d+'/sensors')))
tryit('delete skip=[RecordsCamera], no records_data', lambda: delete_existing_kapture_files(d, True, skip=[kapture.RecordsCamera]))
print(sorted(os.listdir(d+'/sensors')))
# C18
root = tempfile.mkdtemp(dir='/tmp/scratch'); inst = root+'/install'; os.makedirs(inst)
tarp = root+'/evil.tar'
with tarfile.open(tarp,'w') as tf:
    for name in ['../escaped.txt', 'ok/in.txt']:
        ti = tarfile.TarInfo(name); data=b'hello'; ti.size=len(data); tf.addfile(ti, io.BytesIO(data))
    ti = tarfile.TarInfo('lnk'); ti.type = tarfile.SYMTYPE; ti.linkname = '../outside_dir'; tf.addfile(ti)
    ti = tarfile.TarInfo('lnk/through.txt'); data=b'x'; ti.size=1; tf.addfile(ti, io.BytesIO(data))
os.makedirs(root+'/outside_dir')
tryit('untar evil', lambda: untar_file(tarp, inst))
for dp, dn, fn in os.walk(root):
    for f in fn: print('  ', os.path.relpath(os.path.join(dp,f), root))
# C16
d2 = tempfile.mkdtemp(dir='/tmp/scratch')
p = d2+'/keypoints.txt'
open(p,'w').write('# kapture format: 1.1\n# name, dtype, dsize\nsift, __import__("os").system("echo PWNED > %s/pwned"), 4\n' % d2)
tryit('eval config', lambda: kcsv.keypoints_config_from_file(p))
print('pwned exists:', os.path.exists(d2+'/pwned'))
open(p,'w').write('# kapture format: 1.1\n# name, dtype, dsize\nsift, float16, 4\n')
tryit('float16 config', lambda: kcsv.keypoints_config_from_file(p))
open(p,'w').write('# kapture format: 1.1\n# name, dtype, dsize\nsift, nosuchtype, 4\n')
tryit('unknown config', lambda: kcsv.keypoints_config_from_file(p))
# C01 points
for arr in [np.zeros((0,3)), np.zeros((0,6)), np.array([[1.,2.,3.]]), np.array([[1e300,-0.0,5e-324]]), np.array([[1.,2.,3.,4.,5.,6.]])]:
    fp = d2+'/points3d.txt'
    kcsv.points3d_to_file(fp, kapture.Points3d(arr))
    tryit(f'points {arr.shape}', lambda: (kcsv.points3d_from_file(fp).shape, kcsv.points3d_from_file(fp).tolist()[:1]))
# C03 big-endian
a = np.arange(6, dtype='>f4').reshape(2,3)
array_to_file(d2+'/be.kpt', a)
print('BE roundtrip', array_from_file(d2+'/be.kpt', np.float32, 3).tolist(), 'orig', a.tolist())
a = np.arange(12, dtype=np.float32).reshape(3,4)[:, ::2]
array_to_file(d2+'/nc.kpt', a)
print('noncontig roundtrip', array_from_file(d2+'/nc.kpt', np.float32, 2).tolist(), 'orig', a.tolist())
a = np.asfortranarray(np.arange(6, dtype=np.float32).reshape(2,3))
array_to_file(d2+'/f.kpt', a)
print('fortran roundtrip', array_from_file(d2+'/f.kpt', np.float32, 3).tolist(), 'orig', a.tolist())
tryit('np.int', lambda: np.int)
tryit('np.float', lambda: np.float)
