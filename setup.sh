#!/bin/bash
# offline set-up: regenerate Gen/*.lean from /repo and build every Lean target (models, drivers, theorems)
cd "$(dirname "$0")" || exit 2
export PYTHONDONTWRITEBYTECODE=1
/venv/bin/python gen/gen.py || echo "translator reported failures (checks will report them per property)"
cd lean || exit 2
lake build Kapture $(ls Kapture/Drivers/*.lean | sed 's#/#.#g; s#\.lean$##') 2>&1 | tail -40
# a failing theorem must not fail the set-up: each check rebuilds its own targets and reports
exit 0
