#!/bin/bash
# runs every seeded change against its check on a SNAPSHOT of /repo (vp run --with-repo -- tools/seedmatrix.sh [seed-name ...]): prints
# one line per seed and a summary; /repo itself is never touched.  VERIF_SEED=<n> in the environment selects the generator seed.
cd "$(dirname "$0")/.." || exit 2
[ -n "$VP_RUN_REPO" ] && export KAPTURE_REPO=$VP_RUN_REPO
[ -d lean/.lake ] || ./setup.sh > /dev/null 2>&1
python3 tools/seedrun.py "$@" 2>&1 | grep -v "^clean" | tee /dev/stderr | awk '/CAUGHT/{c++} /MISSED/{m++} /does not apply/{a++} END{print "SEED MATRIX seed=" ENVIRON["VERIF_SEED"] " caught=" c " missed=" m " unapplied=" a}'
