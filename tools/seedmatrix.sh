#!/bin/bash
# runs every seeded change against its check on a SNAPSHOT of /repo (vp run --with-repo -- tools/seedmatrix.sh): prints one line per
# seed and a summary; /repo itself is never touched
cd "$(dirname "$0")/.." || exit 2
[ -n "$VP_RUN_REPO" ] && export KAPTURE_REPO=$VP_RUN_REPO
[ -d lean/.lake ] || ./setup.sh > /dev/null 2>&1
python3 tools/seedrun.py "$@" 2>&1 | grep -v "^clean" | tee /dev/stderr | awk '/CAUGHT/{c++} /MISSED/{m++} END{print "SEED MATRIX caught=" c " missed=" m}'
