#!/usr/bin/env python3
"""Regenerates the per-property section of DESIGN.md (between the markers BEGIN/END GENERATED §6) from what exists:
harness/cXX.py metadata (GEN, RULE, ASSUMPTIONS, TRUSTED, PARTIAL), the theorem names and doc-strings of
lean/Kapture/Props/CXX.lean, known_findings.json, tools/detections.json (fix-revert matrix) and seeded/*/meta.json.
Run with /venv/bin/python (imports harness modules)."""
import importlib
import json
import os
import re
import sys

VERIF = os.path.dirname(os.path.dirname(os.path.abspath(__file__)))
sys.path.insert(0, os.path.join(VERIF, 'harness'))
sys.path.insert(0, os.path.join(VERIF, 'gen'))
os.environ.setdefault('KAPTURE_REPO', '/repo')
sys.path.insert(0, os.environ['KAPTURE_REPO'])

BEGIN = '<!-- BEGIN GENERATED §6 (tools/mkdesign.py) -->'
END = '<!-- END GENERATED §6 -->'


def theorems(pid):
    p = os.path.join(VERIF, 'lean', 'Kapture', 'Props', pid + '.lean')
    if not os.path.isfile(p):
        return []
    src = open(p, encoding='utf-8').read()
    out = []
    for m in re.finditer(r'(?:/--(?P<doc>.*?)-/\s*)?^theorem\s+(?P<name>[A-Za-z0-9_\.\']+)', src, re.S | re.M):
        doc = ' '.join((m.group('doc') or '').split())
        # a doc-string must directly precede its theorem: drop docs that belong to something else
        between = src[m.start():m.start('name')]
        if between.count('/--') > 1:
            doc = ' '.join(between.rsplit('/--', 1)[1].split('-/')[0].split())
        out.append((m.group('name'), doc))
    return out


def nlines(path):
    try:
        return sum(1 for _ in open(path, encoding='utf-8'))
    except OSError:
        return 0


def main():
    props = [json.loads(l) for l in open(os.path.join(VERIF, 'properties.jsonl'))]
    manifest = json.load(open(os.path.join(VERIF, 'MANIFEST.json')))
    claimed = {c['property_id'] for c in manifest['checks']}
    known = json.load(open(os.path.join(VERIF, 'known_findings.json')))['findings']
    det_p = os.path.join(VERIF, 'tools', 'detections.json')
    detections = json.load(open(det_p)) if os.path.isfile(det_p) else {}
    seeded = {}
    sd = os.path.join(VERIF, 'seeded')
    for name in sorted(os.listdir(sd)) if os.path.isdir(sd) else []:
        mp = os.path.join(sd, name, 'meta.json')
        if os.path.isfile(mp):
            m = json.load(open(mp))
            seeded.setdefault(m['property'], []).append((name, m))
    out = [BEGIN, '']
    for p in props:
        pid = p['id']
        out.append(f"### {pid} — {p['title']}")
        out.append('')
        if pid not in claimed:
            na = [x for x in manifest.get('not_applicable', []) if x.get('property_id') == pid]
            out.append('Not claimed. ' + (na[0].get('reason', '') if na else ''))
            out.append('')
            continue
        try:
            P = importlib.import_module(pid.lower())
        except Exception as e:  # pragma: no cover
            out.append(f'(harness module failed to import: {e})')
            out.append('')
            continue
        lk = os.path.join(VERIF, 'lean', 'Kapture')
        sizes = {k: nlines(os.path.join(lk, k, pid + '.lean')) for k in ('Model', 'Lemmas', 'Props', 'Drivers')}
        out.append(f"* **Files**: `lean/Kapture/Model/{pid}.lean` ({sizes['Model']} lines), `Lemmas/{pid}.lean` "
                   f"({sizes['Lemmas']}), `Props/{pid}.lean` ({sizes['Props']}), `Drivers/{pid}.lean` ({sizes['Drivers']}), "
                   f"`harness/{pid.lower()}.py` ({nlines(os.path.join(VERIF, 'harness', pid.lower() + '.py'))}).")
        gen = getattr(P, 'GEN', [])
        out.append('* **Generated from the source on every run (G)**: ' +
                   (', '.join(f'`Gen.{g}`' for g in gen) if gen else 'nothing (hand model + correspondence only)') + '.')
        th = theorems(pid)
        out.append(f'* **Theorems (T)** — {len(th)}, all universally quantified, axioms ⊆ {{propext, Classical.choice, Quot.sound}}:')
        for name, doc in th:
            out.append(f'  * `{name}`' + (f' — {doc}' if doc else ''))
        rule = getattr(P, 'RULE', '')
        out.append(f'* **Correspondence (X)**: {rule}')
        ass = getattr(P, 'ASSUMPTIONS', [])
        if ass:
            out.append('* **Modelled, not verified**: ' + '; '.join(ass) + '.')
        tr = getattr(P, 'TRUSTED', [])
        if tr:
            out.append('* **Trusted (besides Lean kernel, translator, harness core)**: ' + '; '.join(tr) + '.')
        part = getattr(P, 'PARTIAL', None)
        if part:
            out.append(f'* **Partial (P)**: {part}')
        kf = [k for k in known if k['property'] == pid]
        for k in kf:
            if k['status'] == 'known':
                out.append(f"* **Known finding** `{k['signature']}`: {k['what']}")
        fx = [k for k in known if k['property'] == pid and k['status'] == 'fixed']
        if fx:
            out.append('* **Defects repaired** (each detected by this check when its fix is reverse-applied, see §7): ' +
                       '; '.join(f"{k.get('defect', '')} `{k.get('commit', '')}` {k['what']}" for k in fx) + '.')
        for d in detections.get(pid, []):
            out.append(f"* **Fix-revert** {d['defect']} (`{d['commit']}`): {d['result']}")
        for name, m in seeded.get(pid, []):
            res = m.get('check_result', {})
            verdict = 'caught' if m.get('caught') else ('not run through /repo yet' if not res else 'MISSED')
            extra = f" — {m['strengthened']}" if m.get('strengthened') else ''
            out.append(f"* **Seeded change** `seeded/{name}`: {m.get('summary', '')[:260]} → **{verdict}**{extra}")
        out.append('')
    out.append(END)
    frag = '\n'.join(out)
    dp = os.path.join(VERIF, 'DESIGN.md')
    doc = open(dp, encoding='utf-8').read()
    if BEGIN in doc and END in doc:
        doc = doc[:doc.index(BEGIN)] + frag + doc[doc.index(END) + len(END):]
    else:
        sys.exit('markers not found in DESIGN.md')
    open(dp, 'w', encoding='utf-8').write(doc)
    print('DESIGN.md §6 regenerated:', len(props), 'properties')


if __name__ == '__main__':
    main()
