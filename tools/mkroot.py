#!/usr/bin/env python3
""" regenerates lean/Kapture.lean (the default target) so that `lake build` builds every module present """
import os
root = os.path.join(os.path.dirname(os.path.dirname(os.path.abspath(__file__))), 'lean')
mods = []
for d in ('Base', 'Gen', 'Model', 'Lemmas', 'Props'):  # Drivers each define a top-level main: built as separate targets
    p = os.path.join(root, 'Kapture', d)
    if os.path.isdir(p):
        for fn in sorted(os.listdir(p)):
            if fn.endswith('.lean'):
                mods.append(f'import Kapture.{d}.{fn[:-5]}')
open(os.path.join(root, 'Kapture.lean'), 'w').write('\n'.join(mods) + '\n')
print(len(mods), 'modules')
