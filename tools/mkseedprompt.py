#!/usr/bin/env python3
"""Prepares a seeding task for a fresh sub-agent: scratch worktree /tmp/wt_<tag> of /repo's HEAD and /tmp/seed_<tag>/prompt.txt
holding ONLY the property text (nothing from /verif's machinery).  usage: tools/mkseedprompt.py C07 b ["avoid" text]"""
import json, os, subprocess, sys
VERIF = os.path.dirname(os.path.dirname(os.path.abspath(__file__)))
pid, suf = sys.argv[1], sys.argv[2]
avoid = sys.argv[3] if len(sys.argv) > 3 else ''
tag = f'{pid}{suf}'
props = {json.loads(l)['id']: json.loads(l) for l in open(os.path.join(VERIF, 'properties.jsonl'))}
tpl = open(os.path.join(VERIF, 'tools', 'seed_prompt_template.txt')).read()
start = tpl.index('---\n') + 4
end = tpl.index('\n---\n', start)
p = props[pid]
block = (f"{pid} - {p['title']}\n\nStatement: {p['statement']}\n\nQuantifier ({', '.join(p['quantifier']['over'])}): "
         f"{p['quantifier']['text']}\n\nCode anchors: {', '.join(p['anchors']['files'])}\n")
s = tpl[:start] + block + tpl[end:]
s = s.replace('/tmp/wt_C01', f'/tmp/wt_{tag}').replace('/tmp/seed_C01', f'/tmp/seed_{tag}').replace('"property": "C01"', f'"property": "{pid}"')
s = s.replace('C01', pid)
if avoid:
    s += ('\n\nAnother engineer already seeded the following change for this property; yours must use a DIFFERENT mechanism and a '
          'different code site / trigger:\n  ' + avoid + '\n')
os.makedirs(f'/tmp/seed_{tag}', exist_ok=True)
open(f'/tmp/seed_{tag}/prompt.txt', 'w').write(s)
open(f'/tmp/seed_{tag}/property.txt', 'w').write(block)
r = subprocess.run(f'git -C /repo worktree add --detach /tmp/wt_{tag} HEAD', shell=True, capture_output=True, text=True)
print(tag, r.returncode, r.stderr.strip()[-60:])
