#!/bin/bash
# re-runs every registered quick check on /repo (seed 0) so that the committed evidence files come from the unchanged tree,
# regenerates MANIFEST.json and DESIGN.md §6 and validates them. Prints only what needs attention.
cd "$(dirname "$0")/.." || exit 2
unset KAPTURE_REPO VERIF_SEED VERIF_TIER
if [ -n "$(git -C /repo status --porcelain)" ]; then echo "/repo is not clean"; exit 2; fi
bad=0
for i in C01 C02 C03 C04 C05 C06 C07 C08 C09 C10 C11 C12 C13 C14 C15 C16 C17 C18 C19 C20; do
  out=$(./check $i 2>&1); rc=$?
  if [ $rc -ne 0 ]; then echo "$i exit $rc"; echo "$out" | tail -3 | cut -c1-300; bad=1; fi
done
python3 tools/mkmanifest.py >/dev/null && python3 tools/mkroot.py >/dev/null && /venv/bin/python tools/mkdesign.py >/dev/null && python3-vt tools/validate.py
exit $bad
