#!/usr/bin/env python3
import json, jsonschema, os, sys, glob
V='/verif'
jsonschema.validate(json.load(open(V+'/MANIFEST.json')), json.load(open('/root/.vp/MANIFEST.schema.json')))
es=json.load(open('/root/.vp/EVIDENCE.schema.json'))
for f in sorted(glob.glob(V+'/evidence/*.json')):
    jsonschema.validate(json.load(open(f)), es)
print('manifest + %d evidence files valid' % len(glob.glob(V+'/evidence/*.json')))
