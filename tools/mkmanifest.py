#!/usr/bin/env python3
""" writes MANIFEST.json from the table below (kept in one place so the manifest is always schema-valid) """
import json
import os

VERIF = os.path.dirname(os.path.dirname(os.path.abspath(__file__)))

COMMON_NOTE = ('Trusted: Lean 4.33.0 kernel; axioms propext, Classical.choice, Quot.sound only (audited with #print axioms on '
               'every run; no sorry/admit/native_decide/bv_decide/own axioms, grepped on every run); the translator gen/gen.py; '
               'the correspondence harness (generators, canonicalisation, oracle). ')

# id -> dict(text, note, technique, design_ref)   (only properties whose check is built and passes are listed here)
CLAIMED = {
    'C05': dict(
        text='Lean 4 theorems over an arbitrary field for the rotation formulas GENERATED from _as_rotation_matrix_njit: '
             'R(pq)=R(p)R(q), orthogonality, R(q^-1)=R^T, scale invariance, exact associativity of compose for chains of any '
             'length, compose with inverse = identity, inverse of inverse, chain law by induction, isometry. Tied to the '
             'source by regeneration on every run plus an exact-rational correspondence of compose/inverse/transform_points.',
        note=COMMON_NOTE + 'IEEE rounding, numpy matmul and numpy-quaternion product/inverse are modelled (checked by '
             'correspondence at 1e-9), not verified; the 1e-14 unit shell is outside the exact theorem.',
        technique='Lean 4 proof (ring/field_simp over a field) + source-to-Lean translation of the matrix entries + '
                  'differential correspondence on exact rationals',
        design_ref='DESIGN.md §6 C05'),
}

CLAIMED.update({
    'C07': dict(
        text='Lean 4 state-machine model of Trajectories/RecordsBase (dict of dicts + sorted-key cache) with 21 theorems: '
             'representation invariant in every reachable state, refinement of each mutation to the plain-map operation, '
             'sorted-list/membership/lookup specs, interpolation = nearest earlier/later carrier within the interval (never '
             'fails), num_digits (GENERATED from the source) = decimal digit count, timestamp_length spec, and history '
             'independence for histories of any length. Tied by op-sequence correspondence (exhaustive short + long random).',
        note=COMMON_NOTE + 'slerp/linear interpolation is opaque (arguments compared); TypeError branches and dict methods other '
             'than the listed operations are outside the model.',
        technique='Lean 4 proof (invariant + refinement by induction over operation lists) + generated num_digits + '
                  'op-sequence differential correspondence',
        design_ref='DESIGN.md §6 C07'),
    'C17': dict(
        text='Lean 4 model of prob_status/download/install against an ARBITRARY server function; theorems for every server, '
             'prior state, force and no_cleaning: at most one extraction and only of bytes whose checksum matches; marker '
             'implies verified extraction (or stale marker without force); any other outcome leaves nothing extracted/marked; '
             'liveness against an honest server incl. resume; and for every HISTORY of invocations on one install directory '
             '(history_extracts_only_verified, history_marked_implies, induction on the list of calls): everything ever '
             'extracted is verified, a marker at the end needs a verified extraction or a marker at the start; prob_status is '
             'proved equal to the decision list GENERATED from its source on every run (probStatus_follows_generated_rules). Tied by '
             'fault-script correspondence with a fake requests module over histories of 1..3 invocations.',
        note=COMMON_NOTE + 'SHA-256 is an abstract predicate (driver: equality with the good content); requests/tarfile/yaml are '
             'replaced or observed at their interface; Dataset.upgrade() after install is outside (C20).',
        technique='Lean 4 proof (case analysis + induction on attempts and on invocation histories, universally quantified '
                  'server) + fault-script differential correspondence',
        design_ref='DESIGN.md §6 C17'),
    'C19': dict(
        text='Lean 4 decision-function model of delete_existing_kapture_files over tables GENERATED from the live modules; '
             'theorems for all only/skip/answer/directory states: no deletion without consent, the plan is EXACTLY the existing '
             'paths selected by only/skip (record data kept when a kept part needs it), no duplicates, only dataset paths, '
             'skip survives, links are unlinked. Tied by sandbox correspondence on real directories.',
        note=COMMON_NOTE + 'os.remove/rmtree/lexists/islink are observed through snapshots, not modelled; user-defined part '
             'types in only/skip are outside; skip=[RecordsBase] follows the code (does not protect records_data).',
        technique='Lean 4 proof over generated tables (decide for table side-conditions) + sandbox differential correspondence',
        design_ref='DESIGN.md §6 C19'),
})

CLAIMED.update({
    'C09': dict(
        text='Lean 4 model of merge_table_key1/2/3, the feature/match collection merges and merge_records_data as first-wins '
             'folds; theorems for any number of inputs: lookup = entry of the earliest input defining the key, keys = union, '
             'no duplicates, skipped/absent parts (over dispatch and guard tables GENERATED from merge_keep_ids.py and the merge '
             'tool), and the source input of every feature/match/record file. Tied by correspondence on real datasets on disk '
             '(tar/dir, every transfer strategy, through merge_keep_ids and the tool).',
        note=COMMON_NOTE + 'tables are compared through kapture.flatten; shutil/os.symlink/tarfile are observed through merged '
             'files; known finding: the merge tool with some skip lists dies in the loader (known_findings.json).',
        technique='Lean 4 proof (first-wins fold lemmas, generated dispatch tables) + differential correspondence on disk',
        design_ref='DESIGN.md §6 C09'),
    'C10': dict(
        text='Lean 4 model of _compute_new_ids and the renamed table merges (after the D9 fix); theorems for any number of '
             'inputs: all fresh ids pairwise distinct, each input gets the mapping of its own ids (missing parts do not shift '
             'others), the merge IS the concatenation of the inputs renamed through their own mapping (nothing lost, duplicated '
             'or attributed to another input), counts add up, lookup law, renamed keys never collide. Tied by correspondence with '
             'identical ids across inputs and parts missing at every position.',
        note=COMMON_NOTE + 'decimal rendering of sensor<n>/rig<n> is trusted injective; rig members are sensors.',
        technique='Lean 4 proof (fold invariants in the Except monad) + differential correspondence + scheme-agnostic oracle',
        design_ref='DESIGN.md §6 C10'),
    'C11': dict(
        text='Lean 4 model of merge_points3d_and_observations/merge_points3d; theorems for any number of reconstructions: merged '
             'cloud = concatenation, point i of input n is point i+offset, every observation is kept on the shifted index with '
             'the same type/image/feature and the same coordinates, nothing invented, counts add up, width preserved, success '
             'for one width. Tied by correspondence through merge_keep_ids on disk (dir/tar features).',
        note=COMMON_NOTE + 'np.vstack is modelled as row concatenation with a width check; inputs without points contribute no '
             'observations (as in the code).',
        technique='Lean 4 proof (fold invariant with offsets) + differential correspondence (exact float bits)',
        design_ref='DESIGN.md §6 C11'),
})

CLAIMED.update({
    'C03': dict(
        text='Lean 4 model of the raw little-endian array dump and of the feature/match path arithmetic; theorems for every item '
             'size, every shape incl. zero rows, every bit pattern: file size = rows x cols x item, byte k of element i is bits '
             '8k.. of it, decode(encode) = identity with the same shape, image name recovered from the path / tar member, path '
             'injective, image pair recovered from a matches path (string-search proof), generated separator border-free, code '
             'locations/extensions/tar names equal those scraped from kapture_format.adoc. Tied by byte-for-byte correspondence '
             '(all dtypes, layouts incl. big-endian views, file/tar/depth).',
        note=COMMON_NOTE + 'numpy tofile/tobytes/fromfile/frombuffer and tarfile are modelled as raw dumps; image names are '
             'normalised relative paths.',
        technique='Lean 4 proof (induction on bytes/strings; decide on generated code and specification tables) + byte-exact '
                  'differential correspondence',
        design_ref='DESIGN.md §6 C03'),
    'C08': dict(
        text='Lean 4 model of equal_kapture over the list of compared attributes and the equal_sets shape GENERATED from '
             'compare.py; theorems: table comparison true iff same key list and pairwise close values (so every add/remove/'
             're-key/alter-beyond-closeness is seen), reflexive/symmetric given closeness is, equal_sets = set equality, '
             'collections equal iff same types/configs/members, symmetric, whole comparison = conjunction over compared parts, '
             'every part is compared except at most records_depth (known finding D6). Tied by correspondence on single-entry '
             'mutations of all 18 parts on either side.',
        note=COMMON_NOTE + 'closeness (1e-5 pose distances, numpy.isclose) is a parameter of the model; the harness evaluates it '
             'from the stated tolerances and stays a factor 4 away from thresholds (numpy.isclose asymmetry band).',
        technique='Lean 4 proof (iff-characterisations by induction; decide on generated list) + mutation-based differential '
                  'correspondence',
        design_ref='DESIGN.md §6 C08'),
    'C12': dict(
        text='Lean 4 model of a feature archive as an append-only log (TarHandler content = last occurrence); theorems for any '
             'archive and any kill point: an append is visible and latest, other names unaffected; archive read = directory form; '
             'packing a folder changes no name and no bytes; after a kill following the k-th completed append every one of the k '
             'appends is visible as latest (and nothing later); length law (512 + padded data per member). Tied by correspondence '
             'with a REAL writer process SIGKILLed after each k, file length compared, and by dir-vs-tar loads of real datasets.',
        note=COMMON_NOTE + 'PARTIAL: that flushed bytes survive SIGKILL is an OS fact observed on every run, not proved; tarfile '
             'framing is trusted; k=0 leaves an empty file tarfile refuses to open (nothing was appended).',
        technique='Lean 4 proof on the append-log model + crash-point correspondence with real process kills',
        design_ref='DESIGN.md §6 C12'),
})

CLAIMED.update({
    'C01': dict(
        text='Lean 4 model of table_to_file/table_from_file over List Char and of every *_to_file writer (files, headers and '
             'paddings GENERATED from csv.py, row order, flattening); theorems for all rows/fields/paddings: a written line parses '
             'back to its fields, a written file to its rows, re-save is byte-identical, int(str(i)) = i incl. negative and 19-digit '
             'values, per-part round trips (trajectories, file/generic records, wifi/bluetooth, observations, sensors, rigs), '
             'sorting is a permutation; and a TYPED layer (pose_to_list and both pose readers, int(), the casts to the field types '
             'GENERATED from dataclasses.fields of the record classes) with typed round trips of trajectories, rigs, generic records, '
             'radio signals, file records and observations for any float codec satisfying the three stated laws. Tied by '
             'byte-for-byte comparison of every file kapture_to_dir writes with the model\'s '
             'rendering, of parsed rows with table_from_file, of the whitespace table with str.isspace, and of the model\'s typed '
             'decoding of the written text with what kapture_from_dir loaded.',
        note=COMMON_NOTE + 'The typed theorems take the float codec laws (float(repr(x)) == x, a repr is a clean non-empty token, '
             'float(\'\') raises) as hypotheses: CPython facts exercised by the reload oracle (bit-identical floats), not proved; '
             '3-D point coordinates (%.10f, within 1e-10) are checked by the oracle only.',
        technique='Lean 4 proof (structural induction on character lists) + generated tables + byte-exact correspondence',
        design_ref='DESIGN.md §6 C01'),
    'C02': dict(
        text='Lean 4 specification model of a conformant text file (comment / blank / data lines with free blanks, free LF/CRLF/'
             'CR); theorems for all layouts: the reader extracts exactly the specified content, two layouts of the same content '
             'load alike, leading zeros accepted, every written file IS a conformant file with the version line first, and the '
             'columns the code writes equal, file by file, the columns scraped from kapture_format.adoc (5 documented aliases). '
             'Tied by an independent reader written from the .adoc and by re-laid-out directories loaded with the real code.',
        note=COMMON_NOTE + 'specreader.py (column types) is my transcription of the specification; units/meaning of columns are '
             'not checkable; typed parsing as in C01.',
        technique='Lean 4 proof over a specification model + tables scraped from the .adoc + layout-fuzzing correspondence',
        design_ref='DESIGN.md §6 C02'),
    'C04': dict(
        text='Lean 4 model of kapture_from_dir on parsed rows (version gate with decimal order, rig collision, per-file sensor-'
             'kind filters, feature / match / observation filters); theorems for every directory content: records, trajectories, '
             'rig members, features, matches and observations are referentially closed AND complete (iff characterisations), a '
             'colliding rig id is rejected, a newer version is refused, another version loads the sensors side only, identically. '
             'Tied by correspondence on real directories with injected dangling entries, version strings and tar packing.',
        note=COMMON_NOTE + 'starts from the rows of the text layer (C01); repeated keys in a file (dict overwrite) are outside; '
             '"1.10" loads like an older version (documented ambiguity).',
        technique='Lean 4 proof (inversion lemma of the loader + list membership) + injected-dangling-reference correspondence',
        design_ref='DESIGN.md §6 C04'),
})

CLAIMED.update({
    'C06': dict(
        text='Lean 4 model of rigs_remove/rigs_recover as entry-list rewriting over an abstract pose composition (C05 supplies the '
             'group laws); theorems for any rig forest and trajectory: free entries untouched, every entry after replacement is '
             'the pose implied by an original entry and the chain of mountings below it (soundness), every sensor below an entry '
             'gets exactly that pose within the pass budget (completeness), no rig id remains for nesting <= max_depth, identity '
             'without rigs; recovery after replacement restores every top-level rig pose and keeps free entries at ANY nesting depth, '
             'with and without master sensors (recover_remove_nested / _masters / _exact, under explicit well-formedness '
             'hypotheses the quantifier grants; also for the real loop with its early exit). Tied by correspondence with the '
             'exact-rational pose algebra on nested forests, masters, in-place and copying variants.',
        note=COMMON_NOTE + 'dict overwrite under conflicting pose sources is excluded by the quantifier; sparse recoveries (member '
             'poses missing) are covered by correspondence and oracle only.',
        technique='Lean 4 proof (induction on passes and mounting derivations) + exact-rational differential correspondence',
        design_ref='DESIGN.md §6 C06'),
    'C20': dict(
        text='Lean 4 file-tree model of both upgrade routes sharing one plan; theorems for any tree: moving data files deepest '
             'first files every one under its type with ITS OWN content (no file lands on a file still to be moved — the D20 '
             'defect, whose shallow-first counterexample is a theorem), in-place = copy on every destination, other files '
             'untouched, the sort used is deepest-first and a permutation, tables keep every line after the version line (so any '
             'comment-dropping reader sees the same rows), observations are regrouped so that a point index holds exactly the '
             '(image, feature) tokens of its own rows in file order and every output row carries the keypoints type, both '
             'routes succeed together. Tied by tree-for-tree correspondence of the real in-place, copy (each strategy) and '
             'automatic routes on harness-written 1.0 directories, and by loading the results.',
        note=COMMON_NOTE + 'shutil.move/copy are modelled as erase+set / set; records_data transfer is outside (C09 helpers); '
             'element-type spellings resolve through the GENERATED table of dtype_from_name.',
        technique='Lean 4 proof (depth-ordering argument on moves) + generated dtype table + tree differential correspondence',
        design_ref='DESIGN.md §6 C20'),
})

CLAIMED.update({
    'C16': dict(
        text='Lean 4 model: the element-type field resolves through a finite table GENERATED by running dtype_from_name on every '
             'public numpy name and the builtins (the translator refuses a source whose readers call eval/exec or bypass the '
             'lookup); theorems: any string is either one of the table entries or a ValueError, side-effect expressions are '
             'rejected, loading only reads files present under the directory, names taken from file content are single path '
             'components, every move of the upgrade plan stays in its feature folder, and on the typed models of the table readers a '
             'timestamp, pose field or declared record field that is not a number is an error (bad_*_is_an_error; checking this '
             'clause on the real loader found D30 and D31, repaired by fix: commits). Tied by running the real loader / '
             'upgrader under sys.addaudithook on directories with one crafted field (canary payloads): opened files and '
             'write/remove/move effects compared with the model.',
        note=COMMON_NOTE + 'PARTIAL: that the interpreter evaluates nothing else is observed through audit events (compile, exec, '
             'import, os.system, Popen, socket, open-for-write ...), not proved; stat probes are not counted as effects.',
        technique='Lean 4 proof on a generated finite table and the upgrade plan + audit-hook effect-trace correspondence',
        design_ref='DESIGN.md §6 C16'),
})

CLAIMED.update({
    'C18': dict(
        text='Lean 4 model of untar_file over a file-system tree with symbolic links: the ".." guard, member-name resolution the '
             'way tarfile.data_filter does it (lexical realpath following links), the kernel\'s own path walk, os.makedirs on '
             'the literal parent path, every member kind, and the copy fallbacks of links (a link that cannot be made extracts '
             'the member its target names, searched by normalised name, recursively); at EVERY site where an entry is created or replaced the model '
             'computes the physical path the kernel would use, and a path not strictly below the install directory is the '
             'verdict `escaped`. Theorems for all archives and all trees (any members, names, link targets, links planted by '
             'earlier members or standing there before): untar_never_escapes / member_never_escapes (`escaped` is unreachable), '
             'tree_stays_closed, dotdot_refused, without_guard_a_directory_is_made_outside (the repaired defect D29 as a '
             'theorem), accepted member / link targets resolve inside, special files refused, extraction stops at the first '
             'refused member; benign_archive_extracted: an archive of regular files with plain names of any depth (none below '
             'another) is extracted entirely, every member with its content. Tied by extracting generated archives with the real untar_file in a '
             'sandbox and comparing the resulting tree and error family with the model; the oracle checks that nothing '
             'outside the destination changed.',
        note=COMMON_NOTE + 'PARTIAL: the kernel path walk, os.makedirs and the tarfile library are modelled, not verified '
             '(the correspondence is the tie; the translator refuses another tarfile than the CPython 3.12.1 one the model transcribes); '
             'the copy fallbacks of TarFile.makelink are inside the model (untar_never_unmodelled); an archive that plants a CYCLE of '
             'symbolic links is followed by the model only up to the member that meets it (oracle only beyond); benign archives holding directory members or repeated names, and file '
             'permissions, are checked by the oracle only.',
        technique='Lean 4 proof (invariant over the makedirs walk, kernel-walk vs realpath refinement) on a file-system model of extraction + sandboxed differential extraction',
        design_ref='DESIGN.md §6 C18'),
})

CLAIMED.update({
    'C15': dict(
        text='Lean 4 model of the discrete core of the OpenSfM converter: focal normalisation by the largest image side and its '
             'inverse (exact rationals; the two expressions, the accepted camera types and the k1 / k2 reads are GENERATED from '
             'export_opensfm_camera / import_camera on every run), camera mapping, zero-padded point keys and the importer\'s string sort, shot/camera '
             'binding, feature file naming, match pair naming; 17 theorems incl. point_key_strict_mono (keys are strictly '
             'monotone in Python str order for ANY cloud size) and points_roundtrip (importPoints (exportPoints pts) = pts for '
             'every list). Tied by full export_opensfm -> import_opensfm loops on generated datasets (0..1500 points, with and '
             'without features and matches) compared with the model, plus an implementation-only oracle comparing the dataset '
             'before export with the dataset after import by image name.',
        note=COMMON_NOTE + 'PARTIAL: JSON / npz / gzip-pickle / kapture text serialisation, os.walk, numpy conversions, '
             'numpy-quaternion rotation-vector maps and IEEE rounding are exercised by the loops only.',
        technique='Lean 4 proof on the converter\'s arithmetic/ordering core + full export-import loop correspondence',
        design_ref='DESIGN.md §6 C15'),
})

CLAIMED.update({
    'C13': dict(
        text='Lean 4 model of the discrete core of the COLMAP converter: pair-id arithmetic GENERATED from database.py on every run, '
             'image-id assignment from names, match column swap on export and its undo on import, the camera model table, points '
             'and tracks under id renumbering, world pose of (nested) rig-mounted cameras on the C05/C06 algebra, and the text layer '
             'of cameras.txt / images.txt / points3D.txt (Model/C13Text: tokens, multi-word image names, two lines per image, '
             'the importer\'s first pass; images_first_pass, image_line_roundtrip); 26 theorems incl. '
             'pairId_roundtrip (ofPairId (toPairId a b) = (min a b, max a b) for all valid ids), pairId_injective, '
             'match_loop_any_ids, points_tracks_loop, nested_rig_camera_world_pose. Tied by full export_colmap -> import_colmap '
             'loops on generated in-range datasets compared with the model at the database, text-file and re-imported-dataset '
             'levels, plus an implementation-only oracle by image name.',
        note=COMMON_NOTE + 'PARTIAL: SQLite, numpy blobs, float printing/parsing and the csv loader are '
             'exercised by the loops only (the text layer of the reconstruction files is modelled and tied byte for byte); datasets without a trajectories part are judged by the oracle only.',
        technique='Lean 4 proof on generated pair-id arithmetic and the converter\'s indexing core + full export-import loop correspondence',
        design_ref='DESIGN.md §6 C13'),
    'C14': dict(
        text='Lean 4 model of the OpenMVG converter core on the C05 pose algebra: export centre = inverse(pose).t, import t = -R c, '
             'intrinsics mapping both ways and both layouts (proved equal to branch tables GENERATED from '
             '_export_openmvg_intrinsics, the _get_intrinsic_* getters and _import_openmvg_cameras on every run), dense id assignment, image-name decomposition and path flattening, '
             'region file naming, structure and matches with column swap; 25 theorems incl. centre_is_camera_centre, '
             'pose_roundtrip_sign_scale (any non-zero multiple of the quaternion), intrinsics_roundtrip, '
             'imported_names_collide_iff (flattening collides exactly when names differ by / versus _), regions_found, '
             'structure_roundtrip, match_pairs_preserved. Tied by full export_openmvg -> import_openmvg -> kapture_from_dir loops '
             '(with and without flattening, both layouts, near-180-degree and non-unit rotations) compared with the model, plus an '
             'implementation-only oracle of the six clauses.',
        note=COMMON_NOTE + 'PARTIAL: JSON / text / binary region formats, os.path on non-normalised names and numpy-quaternion '
             'from_rotation_matrix are exercised by the loops only; rigs and UNKNOWN_CAMERA are not generated.',
        technique='Lean 4 proof on the pose convention (C05 algebra), intrinsics and naming core + full export-import loop correspondence',
        design_ref='DESIGN.md §6 C14'),
})

NOT_YET = {
}

TITLES = {}
for line in open(os.path.join(VERIF, 'properties.jsonl')):
    p = json.loads(line)
    TITLES[p['id']] = p['title']


def main():
    checks = []
    for pid in sorted(CLAIMED):
        c = CLAIMED[pid]
        checks.append({
            'property_id': pid,
            'quick_cmd': f'./check {pid} --tier quick',
            'thorough_cmd': f'./check {pid} --tier thorough',
            'evidence_file': f'evidence/{pid}.json',
            'replay_cmd_template': f'./check {pid} --replay {{path}}',
            'engine': 'lean4-proof+correspondence',
            'level_claimed': {'category': 'proof', 'text': c['text'], 'design_ref': c['design_ref']},
            'level_note': c['note'],
            'technique': c['technique'],
        })
    na = []
    for pid in sorted(TITLES):
        if pid not in CLAIMED:
            na.append({'property_id': pid,
                       'reason': NOT_YET.get(pid, 'check not built yet in this round (model/theorems/correspondence pending); '
                                                  'not claimed until it runs clean')})
    m = {
        'version': 1,
        'setup_cmd': './setup.sh',
        'hooks': {
            'guard': 'NAVER_KAPTURE_VERIF',
            'enable': 'no source hooks are needed: all instrumentation (audit hooks, fake HTTP, sandboxes) lives in the harness process; '
                      'the harness sets NAVER_KAPTURE_VERIF=1 for uniformity',
            'baseline_off_cmd': 'cd /repo && /venv/bin/python -m pytest -q -p no:cacheprovider --timeout=900',
            'source_commits': [],
            'add_only': True,
        },
        'engines': [{
            'name': 'lean4-proof+correspondence',
            'path': 'check',
            'serves_properties': sorted(CLAIMED),
            'kind_free_text': 'Lean 4 theorems about a model (lean/Kapture), regenerated tables/arithmetic from /repo (gen/gen.py), '
                              'and a differential correspondence harness (harness/*.py) with a direct oracle for failing-input search',
        }],
        'checks': checks,
        'not_applicable': na,
        'notes': 'See DESIGN.md. Exit 2 = infrastructure failure (never a violation).',
    }
    with open(os.path.join(VERIF, 'MANIFEST.json'), 'w') as f:
        json.dump(m, f, indent=1)
    print('wrote MANIFEST.json with', len(checks), 'checks,', len(na), 'not claimed')


if __name__ == '__main__':
    main()
