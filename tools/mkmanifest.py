#!/usr/bin/env python3
""" writes MANIFEST.json from the table below (kept in one place so the manifest is always schema-valid) """
import json
import os

VERIF = os.path.dirname(os.path.dirname(os.path.abspath(__file__)))

COMMON_NOTE = ('Trusted: Lean 4.33.0 kernel; axioms propext, Classical.choice, Quot.sound only (audited with #print axioms on '
               'every run; no sorry/admit/native_decide/bv_decide/own axioms, grepped on every run); the translator gen/gen.py; '
               'the correspondence harness (generators, canonicalisation, oracle). ')

# id -> dict(text, note, technique, design_ref)   (only properties whose check is built and passes are listed here)
CLAIMED = {
    'C05': dict(
        text='Lean 4 theorems over an arbitrary field for the rotation formulas GENERATED from _as_rotation_matrix_njit: '
             'R(pq)=R(p)R(q), orthogonality, R(q^-1)=R^T, scale invariance, exact associativity of compose for chains of any '
             'length, compose with inverse = identity, inverse of inverse, chain law by induction, isometry. Tied to the '
             'source by regeneration on every run plus an exact-rational correspondence of compose/inverse/transform_points.',
        note=COMMON_NOTE + 'IEEE rounding, numpy matmul and numpy-quaternion product/inverse are modelled (checked by '
             'correspondence at 1e-9), not verified; the 1e-14 unit shell is outside the exact theorem.',
        technique='Lean 4 proof (ring/field_simp over a field) + source-to-Lean translation of the matrix entries + '
                  'differential correspondence on exact rationals',
        design_ref='DESIGN.md §6 C05'),
}

NOT_YET = {
}

TITLES = {}
for line in open(os.path.join(VERIF, 'properties.jsonl')):
    p = json.loads(line)
    TITLES[p['id']] = p['title']


def main():
    checks = []
    for pid in sorted(CLAIMED):
        c = CLAIMED[pid]
        checks.append({
            'property_id': pid,
            'quick_cmd': f'./check {pid} --tier quick',
            'thorough_cmd': f'./check {pid} --tier thorough',
            'evidence_file': f'evidence/{pid}.json',
            'replay_cmd_template': f'./check {pid} --replay {{path}}',
            'engine': 'lean4-proof+correspondence',
            'level_claimed': {'category': 'proof', 'text': c['text'], 'design_ref': c['design_ref']},
            'level_note': c['note'],
            'technique': c['technique'],
        })
    na = []
    for pid in sorted(TITLES):
        if pid not in CLAIMED:
            na.append({'property_id': pid,
                       'reason': NOT_YET.get(pid, 'check not built yet in this round (model/theorems/correspondence pending); '
                                                  'not claimed until it runs clean')})
    m = {
        'version': 1,
        'setup_cmd': './setup.sh',
        'hooks': {
            'guard': 'NAVER_KAPTURE_VERIF',
            'enable': 'no source hooks are needed: all instrumentation (audit hooks, fake HTTP, sandboxes) lives in the harness process; '
                      'the harness sets NAVER_KAPTURE_VERIF=1 for uniformity',
            'baseline_off_cmd': 'cd /repo && /venv/bin/python -m pytest -q -p no:cacheprovider --timeout=900',
            'source_commits': [],
            'add_only': True,
        },
        'engines': [{
            'name': 'lean4-proof+correspondence',
            'path': 'check',
            'serves_properties': sorted(CLAIMED),
            'kind_free_text': 'Lean 4 theorems about a model (lean/Kapture), regenerated tables/arithmetic from /repo (gen/gen.py), '
                              'and a differential correspondence harness (harness/*.py) with a direct oracle for failing-input search',
        }],
        'checks': checks,
        'not_applicable': na,
        'notes': 'See DESIGN.md. Exit 2 = infrastructure failure (never a violation).',
    }
    with open(os.path.join(VERIF, 'MANIFEST.json'), 'w') as f:
        json.dump(m, f, indent=1)
    print('wrote MANIFEST.json with', len(checks), 'checks,', len(na), 'not claimed')


if __name__ == '__main__':
    main()
