#!/usr/bin/env python3
"""Runs the registered checks against every seeded change under /verif/seeded/<name>/ :
   git -C /repo apply patch.diff ; ./check <id> ; git -C /repo checkout -- .   and records the outcome in meta.json['check_result'].
   usage: tools/seedrun.py [name ...]     (never leaves /repo modified; refuses to start when /repo is dirty)"""
import json, os, subprocess, sys
VERIF = os.path.dirname(os.path.dirname(os.path.abspath(__file__)))
REPO = os.environ.get('KAPTURE_REPO', '/repo')     # a snapshot of /repo when run under `vp run --with-repo` (tools/seedmatrix.sh)


def sh(cmd, **kw):
    return subprocess.run(cmd, shell=True, capture_output=True, text=True, **kw)


def main():
    names = sys.argv[1:] or sorted(os.listdir(os.path.join(VERIF, 'seeded')))
    if REPO == '/repo' and sh(f'git -C {REPO} status --porcelain').stdout.strip():
        sys.exit('refusing: /repo working tree is not clean')
    rows = []
    for name in names:
        d = os.path.join(VERIF, 'seeded', name)
        meta_p = os.path.join(d, 'meta.json')
        if not os.path.isfile(meta_p):
            continue
        meta = json.load(open(meta_p))
        pids = meta.get('checks') or [meta['property']]
        a = sh(f'cd {REPO} && git apply {d}/patch.diff')
        if a.returncode:
            rows.append((name, 'patch does not apply: ' + a.stderr.strip()[:200]))
            continue
        results = {}
        try:
            for pid in pids:
                r = sh(f'./check {pid}', cwd=VERIF, timeout=1200)
                lines = [l for l in r.stdout.splitlines() if l.startswith('VIOLATION') or l.startswith(f'[{pid}]')]
                results[pid] = {'exit': r.returncode, 'lines': [l[:300] for l in lines][:4]}
        finally:
            sh(f'cd {REPO} && git apply -R {d}/patch.diff')
        meta['check_result'] = results
        meta['caught'] = any(v['exit'] == 1 for v in results.values())
        json.dump(meta, open(meta_p, 'w'), indent=1)
        rows.append((name, 'CAUGHT' if meta['caught'] else 'MISSED', {k: v['exit'] for k, v in results.items()}))
    for r in rows:
        print(*r)
    # restore the clean-tree evidence of every check we ran
    done = set()
    for name in names:
        meta_p = os.path.join(VERIF, 'seeded', name, 'meta.json')
        if os.path.isfile(meta_p):
            meta = json.load(open(meta_p))
            for pid in meta.get('checks') or [meta['property']]:
                if pid not in done:
                    done.add(pid)
                    r = sh(f'./check {pid}', cwd=VERIF, timeout=1200)
                    print('clean', pid, 'exit', r.returncode)


if __name__ == '__main__':
    main()
