#!/usr/bin/env python3
"""Confirms a sub-agent's seeded change in its scratch worktree and files it under /verif/seeded/<id>-<x>/ :
   demo on the clean worktree (exit 0), demo with the patch (exit 1), whole suite with the patch; then removes the worktree.
   usage: tools/seedconfirm.py C04d [C07d ...]"""
import json, os, re, shutil, subprocess, sys
VERIF = os.path.dirname(os.path.dirname(os.path.abspath(__file__)))


def sh(cmd, **kw):
    return subprocess.run(cmd, shell=True, capture_output=True, text=True, **kw)


for tag in sys.argv[1:]:
    pid, suf = tag[:3], tag[3:]
    wt, sd = f'/tmp/wt_{tag}', f'/tmp/seed_{tag}'
    out = os.path.join(VERIF, 'seeded', f'{pid}-{suf}')
    if not all(os.path.isfile(os.path.join(sd, f)) for f in ('patch.diff', 'demo.py', 'meta.json')):
        print(tag, 'deliverables missing'); continue
    sh(f'git -C {wt} checkout -- . && git -C {wt} clean -fdq && git -C {wt} stash clear')
    clean = sh(f'/venv/bin/python {sd}/demo.py {wt}', timeout=900).returncode
    a = sh(f'git -C {wt} apply {sd}/patch.diff')
    if a.returncode:
        print(tag, 'patch does not apply', a.stderr[:200]); continue
    patched = sh(f'/venv/bin/python {sd}/demo.py {wt}', timeout=900).returncode
    t = sh(f'cd {wt} && /venv/bin/python -m pytest -q -p no:cacheprovider --timeout=900 2>&1 | tail -1', timeout=1800).stdout.strip()
    ok = clean == 0 and patched == 1 and re.search(r'\b181 passed', t) and 'failed' not in t
    print(tag, 'clean', clean, 'patched', patched, '|', t, '|', 'CONFIRMED' if ok else 'REJECTED')
    if ok:
        os.makedirs(out, exist_ok=True)
        for f in ('patch.diff', 'demo.py'):
            shutil.copy(os.path.join(sd, f), out)
        meta = json.load(open(os.path.join(sd, 'meta.json')))
        meta['origin'] = 'fresh sub-agent given only the property text and a scratch worktree'
        meta['confirmed'] = {'tests_with_patch': t, 'demo_clean_exit': clean, 'demo_patched_exit': patched,
                             'how': 're-run by tools/seedconfirm.py in the scratch worktree (demo without and with the patch, full pytest)'}
        meta.setdefault('checks', [pid])
        json.dump(meta, open(os.path.join(out, 'meta.json'), 'w'), indent=1)
        sh(f'git -C /repo worktree remove --force {wt}')
        shutil.rmtree(sd, ignore_errors=True)
