#!/usr/bin/env python3
"""Fix-revert matrix: for every `fixed` entry of known_findings.json, reverse-applies the fix commit to /repo's working
tree, runs the check of the property the defect belongs to (and the extra ones listed in ALSO), records whether the check
reports the violation, and restores /repo (git checkout -- .).  Writes tools/detections.json, which tools/mkdesign.py
renders into DESIGN.md.   usage: tools/fixrevert.py [D3 D14 ...]   (refuses to start when /repo is dirty)"""
import json
import os
import subprocess
import sys

VERIF = os.path.dirname(os.path.dirname(os.path.abspath(__file__)))
REPO = '/repo'
ALSO = {'D14': ['C20'], 'D17': ['C02']}
# when a later fix touched the same lines, the reverse patch is limited to these files
LIMIT = {'87185ac': ['kapture/io/csv.py']}


def sh(cmd, **kw):
    return subprocess.run(cmd, shell=True, capture_output=True, text=True, **kw)


def main():
    want = set(sys.argv[1:])
    if sh(f'git -C {REPO} status --porcelain').stdout.strip():
        sys.exit('refusing: /repo working tree is not clean')
    known = json.load(open(os.path.join(VERIF, 'known_findings.json')))['findings']
    det_p = os.path.join(VERIF, 'tools', 'detections.json')
    det = json.load(open(det_p)) if os.path.isfile(det_p) else {}
    touched = set()
    for k in known:
        if k['status'] != 'fixed' or (want and k['defect'] not in want):
            continue
        commit, dn = k['commit'], k['defect']
        files = ' -- ' + ' '.join(LIMIT[commit]) if commit in LIMIT else ''
        r = sh(f'cd {REPO} && git show {commit}{files} | git apply -R')
        if r.returncode:
            print(dn, 'reverse patch does not apply:', r.stderr.strip()[:200])
            sh(f'git -C {REPO} checkout -- .')
            continue
        try:
            for pid in [k['property']] + ALSO.get(dn, []):
                c = sh(f'./check {pid}', cwd=VERIF, timeout=3000)
                vio = [l for l in c.stdout.splitlines() if l.startswith('VIOLATION')]
                res = ('detected: ' + vio[0][:160]) if c.returncode == 1 and vio else f'NOT detected (exit {c.returncode})'
                rows = [d for d in det.get(pid, []) if not (d['defect'] == dn and d['commit'] == commit)]
                rows.append({'defect': dn, 'commit': commit, 'result': res})
                det[pid] = rows
                touched.add(pid)
                print(dn, commit, pid, res)
        finally:
            sh(f'git -C {REPO} checkout -- .')
    json.dump(det, open(det_p, 'w'), indent=1, sort_keys=True)
    for pid in sorted(touched):   # restore clean-tree evidence
        c = sh(f'./check {pid}', cwd=VERIF, timeout=3000)
        print('clean', pid, 'exit', c.returncode)


if __name__ == '__main__':
    main()
