#!/bin/bash
# usage: tools/sweep.sh <tier> <seed> [<seed> ...]   runs every check with the given tier and seeds; prints one line per run that
# needs attention and a summary.  With VP_RUN_REPO set (vp run --with-repo) the checks read that snapshot of /repo.
cd "$(dirname "$0")/.." || exit 2
tier=$1; shift
[ -n "$VP_RUN_REPO" ] && export KAPTURE_REPO=$VP_RUN_REPO
[ -d lean/.lake ] || ./setup.sh > /dev/null 2>&1
bad=0
for s in "$@"; do
  for i in C01 C02 C03 C04 C05 C06 C07 C08 C09 C10 C11 C12 C13 C14 C15 C16 C17 C18 C19 C20; do
    t0=$(date +%s)
    out=$(VERIF_SEED=$s ./check $i --tier $tier 2>&1); rc=$?
    t1=$(date +%s)
    echo "$i seed=$s tier=$tier exit=$rc $((t1-t0))s $(echo "$out" | grep "^\[$i\] tier" | tail -1 | cut -c1-160)"
    if [ $rc -ne 0 ]; then echo "$out" | tail -4 | cut -c1-1500; bad=1; fi
  done
done
echo "SWEEP DONE bad=$bad"
