"""
mergecommon.py — shared by the C09 / C10 / C11 harnesses: turning dataset descriptions into the flat tables the Lean
merge models work on, writing the input datasets to disk, canonical views of merged results.
"""
import hashlib
import json
import os

import kgen

SIMPLE = ['sensors', 'rigs', 'trajectories', 'records_camera', 'records_depth', 'records_lidar', 'records_wifi',
          'records_bluetooth', 'records_gnss', 'records_accelerometer', 'records_gyroscope', 'records_magnetic']
TYPE_OF_ATTR = {'trajectories': 'Trajectories', 'records_camera': 'RecordsCamera', 'records_depth': 'RecordsDepth',
                'records_lidar': 'RecordsLidar', 'records_wifi': 'RecordsWifi', 'records_bluetooth': 'RecordsBluetooth',
                'records_gnss': 'RecordsGnss', 'records_accelerometer': 'RecordsAccelerometer',
                'records_gyroscope': 'RecordsGyroscope', 'records_magnetic': 'RecordsMagnetic', 'keypoints': 'Keypoints',
                'descriptors': 'Descriptors', 'global_features': 'GlobalFeatures', 'matches': 'Matches',
                'points3d': 'Points3d', 'observations': 'Observations'}
FEAT_KINDS = ['keypoints', 'descriptors', 'global_features']

# one configuration per feature type name, shared by every dataset of a case (merging requires agreement)
FEAT_CONFIG = {
    'keypoints': {'sift': ('float32', 4), 'r2d2': ('float64', 2), 'd2_net': ('uint8', 6)},
    'descriptors': {'sift': ('uint8', 128, 'sift', 'L2'), 'r2d2': ('float32', 8, 'r2d2', 'L2'), 'd2_net': ('float16', 3, 'sift', 'L1')},
    'global_features': {'apgem': ('float32', 16, 'L2'), 'netvlad': ('float64', 5, 'dot')},
}


def J(x):
    return json.dumps(x, sort_keys=True, separators=(',', ':'))


def normalise_features(d):
    """ force the shared per-type configuration and consistent keypoints types """
    if d.get('keypoints'):
        for t, v in d['keypoints'].items():
            v['dtype'], v['dsize'] = FEAT_CONFIG['keypoints'][t]
    if d.get('descriptors'):
        for t, v in d['descriptors'].items():
            v['dtype'], v['dsize'], v['keypoints_type'], v['metric_type'] = FEAT_CONFIG['descriptors'][t]
    if d.get('global_features'):
        for t, v in d['global_features'].items():
            v['dtype'], v['dsize'], v['metric_type'] = FEAT_CONFIG['global_features'][t]
    return d


def tables_of(d):
    """ canonical description -> {attr: None | [[key list, value string], ...]} (the kapture.flatten view) """
    out = {a: None for a in SIMPLE}
    if d.get('sensors') is not None:
        out['sensors'] = [[[sid], J([s['type'], s['params'], s['name'] or ''])] for sid, s in d['sensors'].items()]
    if d.get('rigs') is not None:
        out['rigs'] = [[[rid, dev], J(p)] for rid, members in d['rigs'].items() for dev, p in members.items()]
    if d.get('trajectories') is not None:
        out['trajectories'] = [[[str(ts), dev], J(p)] for ts, dev, p in d['trajectories']]
    for part in kgen.RECORD_FILE_KINDS:
        if d.get(part) is not None:
            out[part] = [[[str(ts), dev], p] for ts, dev, p in d[part]]
    for part in ('records_wifi', 'records_bluetooth'):
        if d.get(part) is not None:
            out[part] = [[[str(ts), dev, k], J(v)] for ts, dev, sig in d[part] for k, v in sig.items()]
    for part in ['records_gnss'] + kgen.RECORD_XYZ_KINDS:
        if d.get(part) is not None:
            out[part] = [[[str(ts), dev], J(v)] for ts, dev, v in d[part]]
    return out


def feat_view(d, kind):
    if d.get(kind) is None:
        return None
    out = {}
    for t, v in d[kind].items():
        cfg = {k: v[k] for k in v if k != 'images'}
        out[t] = {'config': J(cfg), 'images': list(v['images'])}
    return out


def sorted_table(t):
    return None if t is None else sorted(t, key=lambda e: e[0])


def sha(b):
    return hashlib.sha256(b).hexdigest()[:16]


def read_follow(path):
    with open(path, 'rb') as f:
        return f.read()


def feature_file_digests(root, d, tar_handlers=None):
    """ {kind: {type: {image: digest}}} and {kptype: {"a|b": digest}} of the feature/match files of a dataset on disk """
    import kapture
    import kapture.io.features as kf
    classes = {'keypoints': kapture.Keypoints, 'descriptors': kapture.Descriptors, 'global_features': kapture.GlobalFeatures}
    out = {}
    for kind, cls in classes.items():
        if d.get(kind):
            out[kind] = {}
            for t, v in d[kind].items():
                out[kind][t] = {}
                for name in v['images']:
                    p = kf.get_features_fullpath(cls, t, root, name, tar_handlers)
                    try:
                        if isinstance(p, str):
                            out[kind][t][name] = sha(read_follow(p))
                        else:
                            arr = p[1].get_array_from_tar(p[0], kgen.np_type(v['dtype']), v['dsize'])
                            out[kind][t][name] = sha(arr.tobytes())
                    except (FileNotFoundError, KeyError):
                        out[kind][t][name] = None
    if d.get('matches'):
        out['matches'] = {}
        for kt, pairs in d['matches'].items():
            out['matches'][kt] = {}
            for a, b in pairs:
                p = kf.get_matches_fullpath((a, b), kt, root, tar_handlers)
                try:
                    if isinstance(p, str):
                        out['matches'][kt][a + '|' + b] = sha(read_follow(p))
                    else:
                        out['matches'][kt][a + '|' + b] = sha(kf.image_matches_from_file(p).tobytes())
                except (FileNotFoundError, KeyError):
                    out['matches'][kt][a + '|' + b] = None
    return out


def record_file_digests(root, d):
    import kapture.io.records as kr
    out = {}
    for part, getter in (('records_camera', kr.get_image_fullpath), ('records_depth', kr.get_depth_map_fullpath)):
        if d.get(part):
            out[part] = {}
            for ts, dev, p in d[part]:
                full = getter(root, p)
                out[part][p] = sha(read_follow(full)) if os.path.exists(full) else None
    return out


def scribble(k):
    """ wipes a dataset object in place, as a caller that owns it may: whatever a merge returned must not share mutable
    state with the inputs it was given (run after the result has been described) """
    import numpy as np
    for attr in ('sensors', 'rigs', 'trajectories', 'records_camera', 'records_depth', 'records_lidar', 'records_wifi',
                 'records_bluetooth', 'records_gnss', 'records_accelerometer', 'records_gyroscope', 'records_magnetic',
                 'observations'):
        o = getattr(k, attr, None)
        if isinstance(o, dict):
            for key in list(o):
                inner = dict.__getitem__(o, key)
                if isinstance(inner, dict):
                    for k2 in list(inner):
                        i2 = inner[k2]
                        if isinstance(i2, (dict, list, set)):
                            i2.clear()
                    inner.clear()
            dict.clear(o)
    for attr in ('keypoints', 'descriptors', 'global_features', 'matches'):
        o = getattr(k, attr, None)
        if isinstance(o, dict):
            for t in list(o):
                try:
                    o[t].clear()
                except Exception:
                    pass
            o.clear()
    p = getattr(k, 'points3d', None)
    if p is not None and isinstance(p, np.ndarray) and p.flags.writeable and p.size:
        p.fill(0)
