"""
C09 — merging with kept identifiers is a first-wins union that loses nothing.
Correspondence: kapture.algo.merge_keep_ids.merge_keep_ids (and tools/kapture_merge.py merge_kaptures) on 1..4 real datasets
written to disk with overlapping keys, missing parts, skip lists, every transfer strategy, directory or tar stored features,
versus Model/C09.lean: merged tables (flatten view), merged feature / match sets with the index of the input each file comes
from, and the source of every record data file.
Oracle (implementation only): union / first-wins / skip / absence laws checked directly on the merged object, merged files
byte-compared with the first source, inputs deep-compared before and after.
"""
import copy
import hashlib
import json
import os
import random
import shutil
import sys
import tempfile

import kgen
import mergecommon as mc

ID = 'C09'
TITLE = 'Merging with kept identifiers is a first-wins union that loses nothing'
GEN = ['MergeDispatch']
RULE = ('in 30% of the multi-input cases one input mounts a sensor on a sub-rig of a rig and a later input mounts it on that rig directly; each case = 1..4 generated datasets over a shared pool of sensor ids / timestamps / image names (so that keys overlap), '
        'every part independently present or missing in each input, 30% of the multi-input cases hold a later input that lists exactly what an earlier one lists (same keys, other file bytes), a random skip list, a transfer strategy among '
        'skip/copy/link_absolute/link_relative/move, per-input tar or directory storage of each feature kind, through '
        'merge_keep_ids or the merge tool; distinct non-trivial = distinct cases in which at least one key is defined by two inputs')
ASSUMPTIONS = [
    'tables are compared through kapture.flatten (order inside a container is not part of the property)',
    'shutil.copy / os.symlink / tarfile are observed through the merged files, not modelled',
    'inputs sharing a feature type agree on its element type and size (the code asserts it)',
    'skip=[Points3d] alone also drops observations in the code (they would dangle); the oracle does not require them',
    'root_link cannot work with several inputs (os.symlink on an existing path) and is only run with one input',
]
TRUSTED = ['kgen.py dataset generator and describe()']

_cache = {}


def kap():
    import kapture
    return kapture


def gen_case(rng, tier):
    n = rng.choice([1, 2, 2, 3, 3, 4])
    opts = kgen.Opts(unordered_pairs=0.3, p_part=rng.choice([0.5, 0.8, 0.95]), id_pool=3, fancy_ids=rng.random() < 0.3, ts_style='small',
                     max_rows=4, image_pool=4, partial_poses=False, dtypes=['float32'],
                     cols=rng.choice([3, 6]))
    if rng.random() < 0.35:
        # reconstructions: every input has images, keypoints and points; observations present or absent per input
        opts.force_parts = {'records_camera', 'keypoints', 'points3d'}
    dsets = []
    for i in range(n):
        d = mc.normalise_features(kgen.gen_dataset(rng, opts))
        if rng.random() < 0.15:
            d['sensors'] = d['sensors']    # sensors are needed on disk; keep
        dsets.append(d)
    if n >= 2 and rng.random() < 0.3:
        # an earlier input mounts a sensor on a SUB-RIG of a rig (car holds head, head holds the camera); a later input mounts the
        # same sensor on the rig DIRECTLY: (car, camera) is an entry no earlier input defines, the union must keep it
        i = rng.randrange(0, n - 1)
        j = rng.randrange(i + 1, n)
        a, b = dsets[i], dsets[j]
        sids = [sid for sid in a['sensors'] if sid not in (b['rigs'] or {})]
        if sids:
            x = rng.choice(sids)
            pose = {'r': [kgen.H(1.0), kgen.H(0.0), kgen.H(0.0), kgen.H(0.0)], 't': [kgen.H(0.5), kgen.H(0.0), kgen.H(0.25)]}
            outer, inner = 'rig_car', 'rig_head'
            if all(r not in a['sensors'] and r not in b['sensors'] for r in (outer, inner)):
                a['rigs'] = dict(a['rigs'] or {})
                a['rigs'].setdefault(outer, {})[inner] = pose
                a['rigs'].setdefault(inner, {})[x] = pose
                b['sensors'].setdefault(x, dict(a['sensors'][x]))
                b['rigs'] = dict(b['rigs'] or {})
                b['rigs'].setdefault(outer, {})[x] = pose
    if n >= 2 and rng.random() < 0.3:
        # a later input lists exactly the images, features and match pairs of an earlier one (a re-processed copy of the same
        # capture): every data file exists in both, with different bytes (files are salted per input) - the merge must take
        # each of them from the earlier input
        import copy
        j = rng.randrange(1, n)
        dsets[j] = copy.deepcopy(dsets[rng.randrange(0, j)])
        # ... with other VALUES under the shared keys (first-wins must be observable) and, in every radio record, one more
        # signal of its own (a union is finer than "the first input's whole record")
        dj = dsets[j]
        for ts, dev, sig in (dj.get('records_wifi') or []):
            for b in sig:
                sig[b][0] = sig[b][0] + 1
            sig['BA:BE:CA:FE:99:%02d' % j] = [2412, kgen.H(-42.5), 'extra', 1, 2]
        for ts, dev, sig in (dj.get('records_bluetooth') or []):
            for b in sig:
                sig[b][1] = sig[b][1] + '!'
            sig['AA:BB:9%d' % j] = [kgen.H(-77.0), 'extra']
        for part in ('records_gnss',) + tuple(kgen.RECORD_XYZ_KINDS):
            for row in (dj.get(part) or []):
                row[2][0] = kgen.H(kgen.F(row[2][0]) + 1.0) if abs(kgen.F(row[2][0])) < 1e300 else row[2][0]
        for row in (dj.get('trajectories') or []):
            if row[2].get('t') is not None:
                row[2]['t'][0] = kgen.H(kgen.F(row[2]['t'][0]) + 1.0) if abs(kgen.F(row[2]['t'][0])) < 1e300 else row[2]['t'][0]
    if n >= 2 and rng.random() < 0.5:
        # a later input names a record file (image, lidar, depth) like one of an earlier input UP TO LETTER CASE (IMG_0001 vs
        # img_0001): two different files on a case-sensitive file system, both must be transferred.  Images are only renamed
        # when nothing else of that input refers to them (features, matches, observations).
        def referenced(d):
            names = set()
            for kind in ('keypoints', 'descriptors', 'global_features'):
                for v in (d.get(kind) or {}).values():
                    names |= set(v['images'])
            for pairs in (d.get('matches') or {}).values():
                for a_, b_ in pairs:
                    names |= {a_, b_}
            for o in (d.get('observations') or []):
                names.add(o[2])
            return names
        for part in ('records_camera', 'records_lidar', 'records_depth'):
            for j in range(1, n):
                earlier = [p for d0 in dsets[:j] for ts, dev, p in (d0.get(part) or [])]
                rows = dsets[j].get(part) or []
                free = [r for r in rows if part != 'records_camera' or r[2] not in referenced(dsets[j])]
                if earlier and free:
                    variant = rng.choice(earlier).swapcase()
                    if variant.lower() != variant.upper() and variant not in [r[2] for r in rows] and variant not in earlier:
                        rng.choice(free)[2] = variant
    skip = [t for t in mc.TYPE_OF_ATTR.values() if rng.random() < 0.12]
    strategy = rng.choice(['skip', 'copy', 'link_absolute', 'link_relative', 'move'])
    tar = [sorted(k for k in ('keypoints', 'descriptors', 'global_features', 'matches') if rng.random() < 0.3) for _ in range(n)]
    return {'datasets': dsets, 'skip': skip, 'strategy': strategy, 'tar': tar, 'via_tool': rng.random() < 0.25}


def cases(rng, tier):
    n = 160 if tier == 'quick' else 1500
    return [gen_case(rng, tier) for _ in range(n)]


def key_of(case):
    return json.dumps(case, sort_keys=True)


# ---------------------------------------------------------------------------------------------------- running

def run_real(case):
    k = key_of(case)
    if k in _cache:
        return _cache[k]
    _cache.clear()
    _cache[k] = _run_real(case)
    return _cache[k]


def _run_real(case):
    kapture = kap()
    from kapture.algo.merge_keep_ids import merge_keep_ids
    from kapture.io.csv import get_all_tar_handlers, kapture_from_dir
    from kapture.io.records import TransferAction
    base = tempfile.mkdtemp(prefix='c09_')
    res = {}
    try:
        paths, objs, digests, recdig = [], [], [], []
        for i, d in enumerate(case['datasets']):
            # the inputs are given in an order that is NOT the alphabetical order of their directory names in half of the cases
            # (first-wins is about the order GIVEN): query before mapping, zeta before alpha
            unsorted_names = int(hashlib.md5(key_of(case).encode()).hexdigest(), 16) % 2 == 1
            p = os.path.join(base, ['query', 'mapping', 'zeta', 'alpha', 'mid', 'beta', 'gamma', 'delta'][i] if unsorted_names and i < 8 else f'in{i}')
            kobj, _ = kgen.write_dataset(d, p, f'salt{i}', case['tar'][i])
            paths.append(p)
            objs.append(kobj)
        skip_types = [getattr(kapture, t) for t in case['skip']]
        merged_path = os.path.join(base, 'merged')
        md_pre = None
        os.makedirs(merged_path)
        strategy = TransferAction[case['strategy']]
        handlers = []
        try:
            if case['via_tool']:
                tools = os.path.join(os.environ.get('KAPTURE_REPO', '/repo'), 'tools')
                if tools not in sys.path:
                    sys.path.insert(0, tools)
                import kapture_merge
                names = {v: k for k, v in mc.TYPE_OF_ATTR.items()}
                # what the tool will load (the loader filters dangling entries): reload the inputs the same way
                loaded = []
                for p in paths:
                    th = get_all_tar_handlers(p)
                    try:
                        loaded.append(kgen.describe(kapture_from_dir(p, tar_handlers=th, skip_list=skip_types)))
                    except AssertionError:
                        # the loader asserts that records_camera / keypoints / points3d are loaded when features /
                        # observations are: with those types in skip_list the tool cannot even load its inputs
                        return {'error': 'AssertionError: loader-skip-assert', 'inputs': None}
                    finally:
                        th.close()
                for p, d in zip(paths, loaded):
                    th = get_all_tar_handlers(p)
                    try:
                        digests.append(mc.feature_file_digests(p, d, th))
                    finally:
                        th.close()
                    recdig.append(mc.record_file_digests(p, d))
                before = loaded
                try:
                    kapture_merge.merge_kaptures(paths, merged_path, keep_sensor_ids=True, images_import_strategy=strategy,
                                                 skip=[names[t] for t in case['skip']], force=True)
                    th = get_all_tar_handlers(merged_path)
                    try:
                        merged = kapture_from_dir(merged_path, tar_handlers=th)
                    finally:
                        th.close()
                    err = None
                except Exception as e:
                    merged, err = None, type(e).__name__ + ': ' + str(e)[:200]
                after = before
                inputs_desc = loaded
            else:
                for p in paths:
                    handlers.append(get_all_tar_handlers(p))
                inputs_desc = [kgen.describe(o) for o in objs]
                for p, d, th in zip(paths, inputs_desc, handlers):
                    digests.append(mc.feature_file_digests(p, d, th))
                    recdig.append(mc.record_file_digests(p, d))
                before = inputs_desc
                try:
                    merged = merge_keep_ids(objs, skip_types, paths, handlers, merged_path, strategy)
                    err = None
                except Exception as e:
                    merged, err = None, type(e).__name__ + ': ' + str(e)[:200]
                if merged is not None:
                    md_pre = kgen.describe(merged)
                    mc.scribble(merged)          # the result is the caller's: wiping it must not reach the inputs
                after = [kgen.describe(o) for o in objs]
        finally:
            for th in handlers:
                th.close()
        res = {'error': err, 'inputs': inputs_desc, 'before': before, 'after': after, 'in_digests': digests, 'in_rec': recdig}
        if merged is not None:
            md = md_pre if md_pre is not None else kgen.describe(merged)
            res['merged'] = md
            md_files = md
            if case['via_tool'] and inputs_desc:
                # files that were transferred but are not listed by the reload (see listed_after_reload) are looked up too
                md_files = copy.deepcopy(md)
                for d in inputs_desc:
                    for kind in mc.FEAT_KINDS:
                        for t, v in (d[kind] or {}).items():
                            if md_files[kind] is not None:
                                md_files[kind].setdefault(t, dict(v, images=[]))
                                md_files[kind][t]['images'] = sorted(set(md_files[kind][t]['images']) | set(v['images']))
                    for t, pairs in (d['matches'] or {}).items():
                        if md_files['matches'] is not None:
                            md_files['matches'].setdefault(t, [])
                            md_files['matches'][t] = sorted({tuple(p) for p in md_files['matches'][t]} | {tuple(p) for p in pairs})
            res['merged_digests'] = mc.feature_file_digests(merged_path, md_files)
            res['merged_rec'] = mc.record_file_digests(merged_path, md)
        return res
    finally:
        shutil.rmtree(base, ignore_errors=True)


def run_impl(case):
    r = run_real(case)
    if r['error']:
        return {'error': r['error'].split(':')[0]}
    md = r['merged']
    tabs = mc.tables_of(md)
    out = {'simple': {a: mc.sorted_table(tabs[a]) for a in mc.SIMPLE}, 'feat': {}, 'matches': None, 'recfiles': {}}
    for kind in mc.FEAT_KINDS:
        fv = mc.feat_view(md, kind)
        if fv is None:
            out['feat'][kind] = None
        else:
            out['feat'][kind] = {t: {'config': v['config'], 'images': sorted(v['images'])} for t, v in fv.items()}
    out['matches'] = None if md['matches'] is None else {t: sorted(map(list, ps)) for t, ps in md['matches'].items()}
    out['digests'] = r['merged_digests']
    out['rec'] = r['merged_rec']
    return out


def to_model(case):
    r = run_real(case)
    inputs = r['inputs']
    if inputs is None:
        return []      # the tool could not load its inputs (known finding): nothing to ask the merge model
    req = {'skip': case['skip'], 'inputs': [mc.tables_of(d) for d in inputs],
           'feat': {kind: [mc.feat_view(d, kind) for d in inputs] for kind in mc.FEAT_KINDS},
           'matches': [d['matches'] for d in inputs],
           'recfiles': {part: [[p for _, _, p in (d[part] or [])] for d in inputs] for part in ('records_camera', 'records_depth')}}
    return [req]


def compare(case, io, mo):
    if not mo:
        return None
    mo = mo[0]
    if 'error' in io or 'error' in mo:
        return None if ('error' in io and 'error' in mo) else f'errors differ: impl={io.get("error")} model={mo.get("error")}'
    r = run_real(case)
    for a in mc.SIMPLE:
        if io['simple'][a] != mc.sorted_table(mo['simple'].get(a)):
            return f'{a}: impl {str(io["simple"][a])[:300]} model {str(mc.sorted_table(mo["simple"].get(a)))[:300]}'
    for kind in mc.FEAT_KINDS:
        m = mo['feat'][kind]
        i = io['feat'][kind]
        if (m is None) != (i is None):
            return f'{kind}: impl {i} model {m}'
        if m is None:
            continue
        if sorted(m) != sorted(i):
            return f'{kind} types: impl {sorted(i)} model {sorted(m)}'
        for t in m:
            if m[t]['config'] != i[t]['config']:
                return f'{kind}/{t} config: impl {i[t]["config"]} model {m[t]["config"]}'
            if sorted(n for n, _ in m[t]['images'] if listed_after_reload(case, r['merged'], kind, n)) != i[t]['images']:
                return f'{kind}/{t} images: impl {i[t]["images"]} model {m[t]["images"]}'
            for name, src in m[t]['images']:
                want = r['in_digests'][src].get(kind, {}).get(t, {}).get(name)
                got = io['digests'].get(kind, {}).get(t, {}).get(name)
                if want != got:
                    return f'{kind}/{t}/{name}: merged file {got}, model says it comes from input {src} ({want})'
    mm, im = mo['matches'], io['matches']
    if (mm is None) != (im is None):
        return f'matches: impl {im} model {mm}'
    if mm is not None:
        if sorted(mm) != sorted(im):
            return f'match types: impl {sorted(im)} model {sorted(mm)}'
        for t in mm:
            if sorted([a, b] for a, b, _ in mm[t] if listed_after_reload(case, r['merged'], 'matches', a + '|' + b)) != im[t]:
                return f'matches/{t}: impl {im[t]} model {mm[t]}'
            for a, b, src in mm[t]:
                want = r['in_digests'][src].get('matches', {}).get(t, {}).get(a + '|' + b)
                got = io['digests'].get('matches', {}).get(t, {}).get(a + '|' + b)
                if want != got:
                    return f'matches/{t}/{a}|{b}: merged file {got}, model says input {src} ({want})'
    if case['strategy'] != 'skip':
        for part in ('records_camera', 'records_depth'):
            m = mo['recfiles'][part]
            if m is None:
                continue
            for name, src in m:
                if name not in (io['rec'].get(part) or {}):
                    continue     # the record itself may have lost against another input's record; file still copied
                want = r['in_rec'][src].get(part, {}).get(name)
                got = io['rec'][part][name]
                if case['strategy'] == 'move' and want is None:
                    continue
                if want != got:
                    return f'{part}/{name}: merged file {got}, model says input {src} ({want})'
    return None


def listed_after_reload(case, md, kind, nme):
    """ Through the command-line tool the merged dataset is observed by RELOADING the written directory, and the loader
    (C04) lists a feature / match file only if its image(s) are records of the merged dataset. When two inputs hold different
    image names under one (timestamp, camera) key, first-wins on the records leaves the later input's image without a
    record: its feature files are still transferred (checked through the digests) but are not listed after the reload. """
    if not case['via_tool']:
        return True
    imgs = {row[2] for row in (md['records_camera'] or [])}
    if kind == 'matches':
        a, b = nme.split('|')
        return a in imgs and b in imgs
    return nme in imgs


# ---------------------------------------------------------------------------------------------------- oracle

def oracle(case):
    r = run_real(case)
    if r['error'] and 'loader-skip-assert' in r['error']:
        return {'signature': 'tool-loader-skip-assert', 'detail': f'merge tool with skip={case["skip"]}: kapture_from_dir '
                'asserts records_camera/keypoints/points3d are loaded'}
    if r['error']:
        return {'signature': 'raises:' + r['error'].split(':')[0], 'detail': r['error']}
    if r['before'] != r['after']:
        diff = [p for p in kgen.PART_NAMES for b, a in zip(r['before'], r['after']) if b[p] != a[p]]
        return {'signature': 'inputs-modified', 'detail': f'input datasets changed in parts {sorted(set(diff))}'}
    md = r['merged']
    mt = mc.tables_of(md)
    ins = [mc.tables_of(d) for d in r['inputs']]
    for a in mc.SIMPLE:
        skipped = mc.TYPE_OF_ATTR.get(a) in case['skip']
        expect = {}
        for t in ins:
            for k, v in (t[a] or []):
                expect.setdefault(tuple(k), v)
        got = {tuple(k): v for k, v in (mt[a] or [])}
        if skipped:
            if mt[a] is not None:
                return {'signature': 'skip-not-absent', 'detail': f'{a} is in the skip list but present in the merge'}
            continue
        if not expect:
            if mt[a] is not None:
                return {'signature': 'absent-became-present', 'detail': f'{a} has no entry in any input but is present'}
            continue
        if got != expect:
            lost = [k for k in expect if k not in got]
            extra = [k for k in got if k not in expect]
            wrong = [k for k in expect if k in got and got[k] != expect[k]]
            return {'signature': 'first-wins-union:' + a,
                    'detail': f'{a}: lost {lost[:3]} extra {extra[:3]} not-first {wrong[:3]}'}
    for kind in mc.FEAT_KINDS + ['matches']:
        skipped = mc.TYPE_OF_ATTR[kind] in case['skip']
        if skipped:
            if md[kind] is not None:
                return {'signature': 'skip-not-absent', 'detail': f'{kind} skipped but present'}
            continue
        expect = {}
        for i, d in enumerate(r['inputs']):
            for t, v in (d[kind] or {}).items():
                names = [a + '|' + b for a, b in v] if kind == 'matches' else v['images']
                for nme in names:
                    expect.setdefault((t, nme), i)
        got = set()
        for t, v in (md[kind] or {}).items():
            names = [a + '|' + b for a, b in v] if kind == 'matches' else v['images']
            got |= {(t, nme) for nme in names}
        if got != {k for k in expect if listed_after_reload(case, md, kind, k[1])}:
            return {'signature': 'feature-union:' + kind, 'detail': f'{kind}: lost {sorted(set(expect) - got)[:3]} '
                    f'extra {sorted(got - set(expect))[:3]}'}
        for (t, nme), src in expect.items():
            want = r['in_digests'][src][kind][t][nme]
            have = r['merged_digests'].get(kind, {}).get(t, {}).get(nme)
            if want != have:
                return {'signature': 'feature-file:' + kind, 'detail': f'{kind}/{t}/{nme}: merged {have} != first source {want}'}
    if not case['via_tool'] and 'Points3d' not in case['skip'] and 'Keypoints' not in case['skip']:
        # the reconstruction part of "for every part, exactly the union": points are concatenated in input order and every
        # observation still designates the same coordinates (C11 states this in full; here on C09's own inputs)
        rows = [] if md['points3d'] is None else md['points3d']['rows']
        expect_rows, expect_obs, off = [], {}, 0
        for d in r['inputs']:
            if d['points3d'] is None:
                continue
            mine = d['points3d']['rows']
            for i, kt, img, f in (d['observations'] or []):
                expect_obs[(i + off, kt, img, f)] = expect_obs.get((i + off, kt, img, f), 0) + 1
            expect_rows += mine
            off += len(mine)
        if rows != expect_rows:
            return {'signature': 'points-not-concatenated', 'detail': f'{len(rows)} merged points, concatenation has {len(expect_rows)}'}
        if 'Observations' not in case['skip']:
            got = {}
            for o in (md['observations'] or []):
                got[tuple(o)] = got.get(tuple(o), 0) + 1
            if got != expect_obs:
                return {'signature': 'observations-differ', 'detail': f'lost {[k for k in expect_obs if k not in got][:3]} '
                        f'extra {[k for k in got if k not in expect_obs][:3]}'}
    # a part named in the skip list is absent from the merge, the reconstruction parts too
    if 'Observations' in case['skip'] and md['observations']:
        return {'signature': 'skip-not-absent', 'detail': f'observations are in the skip list, the merge has {len(md["observations"])} of them'}
    if 'Points3d' in case['skip'] and md['points3d'] is not None and md['points3d']['rows']:
        return {'signature': 'skip-not-absent', 'detail': 'points3d is in the skip list but present in the merge'}
    if case['strategy'] in ('copy', 'link_absolute', 'link_relative'):
        for part in ('records_camera', 'records_depth'):
            if mc.TYPE_OF_ATTR[part] in case['skip']:
                continue
            first = {}
            for i, d in enumerate(r['inputs']):
                for _, _, p in (d[part] or []):
                    first.setdefault(p, i)
            for name, dig in (r['merged_rec'].get(part) or {}).items():
                want = r['in_rec'][first[name]][part][name]
                if dig != want:
                    return {'signature': 'record-file', 'detail': f'{part}/{name}: merged {dig} != first source {want}'}
    return None


def nontrivial(case):
    seen, dup = set(), False
    for d in case['datasets']:
        t = mc.tables_of(d)
        for a in mc.SIMPLE:
            for k, _ in (t[a] or []):
                kk = (a, tuple(k))
                if kk in seen:
                    dup = True
                seen.add(kk)
    return key_of(case) if dup else None


def distribution(cases_):
    d = {}
    for c in cases_:
        d['n=%d' % len(c['datasets'])] = d.get('n=%d' % len(c['datasets']), 0) + 1
        d['strategy:' + c['strategy']] = d.get('strategy:' + c['strategy'], 0) + 1
        d['via_tool' if c['via_tool'] else 'direct'] = d.get('via_tool' if c['via_tool'] else 'direct', 0) + 1
        d['skip:%d' % len(c['skip'])] = d.get('skip:%d' % len(c['skip']), 0) + 1
        for i, ds in enumerate(c['datasets']):
            for p in kgen.PART_NAMES:
                if ds[p] is None:
                    d['missing:' + p] = d.get('missing:' + p, 0) + 1
        for t in c['tar']:
            for k in t:
                d['tar:' + k] = d.get('tar:' + k, 0) + 1
    return d


def shrink(case, still_fails):
    c = json.loads(json.dumps(case))
    # drop datasets, then parts
    changed = True
    while changed:
        changed = False
        for i in range(len(c['datasets']) - 1, -1, -1):
            if len(c['datasets']) > 1:
                cand = dict(c, datasets=c['datasets'][:i] + c['datasets'][i + 1:], tar=c['tar'][:i] + c['tar'][i + 1:])
                if still_fails(cand):
                    c, changed = cand, True
                    break
        if changed:
            continue
        for i, d in enumerate(c['datasets']):
            for p in kgen.PART_NAMES:
                if p != 'sensors' and d[p] is not None:
                    cand = json.loads(json.dumps(c))
                    cand['datasets'][i][p] = None
                    if still_fails(cand):
                        c, changed = cand, True
                        break
            if changed:
                break
    return c
