"""
C02 — written text files follow the published format; conformant files load as such.
Correspondence: (a) every file kapture_to_dir writes is read by an INDEPENDENT reader written from kapture_format.adoc alone
(specreader.py) and must give back the dataset; (b) every text file is re-laid-out as the specification allows (blanks around
commas, comment and blank lines, shuffled rows, LF/CRLF/CR per line, leading zeros on integers) — the layout is rendered both by
the harness and by the Lean specification model (Lemmas/C02.lean: SpecLine / glue), the two texts must be identical, the model's
parseFile of the text must equal the specified content and equal what table_from_file returns, and the real loader must load
the re-laid-out directory to the same dataset.
Oracle (implementation only): (a) and the reload of (b).
"""
import io
import json
import os
import random
import shutil
import tempfile

import c01
import kgen
import specreader

ID = 'C02'
TITLE = 'Written text files follow the published format; conformant files load as such'
GEN = ['Headers', 'SpecColumns', 'FileNames', 'RecordSchemas']
RULE = ('each case = a generated dataset, a layout seed and what the process loaded just before (nothing / a 1.0 directory / a refused 2.0 directory) (columns comment first / missing / after some data rows); all 14 top-level files, the three descriptor files and points3d are '
        're-laid-out with per-line random choices (0-3 blanks of space/tab on each side of each field, comment/blank lines between '
        'rows, row order shuffled where the format does not number rows, LF/CRLF/CR per line, 0-3 leading zeros on timestamps, other decimal spellings of the same pose / record floats (1. .5 +1.0 1E0 1.00), point '
        'ids and feature ids); a dataset with matches is also loaded with a pairs file listing every stored pair (half reversed) and one that is '
        'not stored; distinct non-trivial = distinct (dataset, layout seed) with at least 5 files')
ASSUMPTIONS = [
    'specreader.py is my transcription of the specification (column types, comment / blank rules); the column ORDER is not trusted: '
    'it is scraped from the .adoc on every run (Gen/SpecColumns.lean) and proved equal to the code\'s (columns_match_specification)',
    'documented units and the meaning of columns are not checkable',
    'a data line whose first field would start with # after leading blanks is outside the quantifier (the code treats only a line '
    'STARTING with # as a comment)',
    'points3d.txt is read by numpy.loadtxt: blanks, comments and line ends are free, the row order is the point index',
]
TRUSTED = ['specreader.py', 'kgen.py']
PARTIAL = 'the Lean theorems cover the text layer and the column tables; typed parsing of tokens is covered by correspondence only'
_cache = {}
INT_COLS = {'trajectories.txt': [0], 'records_camera.txt': [0], 'records_depth.txt': [0], 'records_lidar.txt': [0],
            'records_wifi.txt': [0, 3, 6, 7], 'records_bluetooth.txt': [0], 'records_gnss.txt': [0, 5],
            'records_accelerometer.txt': [0], 'records_gyroscope.txt': [0], 'records_magnetic.txt': [0], 'observations.txt': 'obs',
            'keypoints.txt': [2], 'descriptors.txt': [2], 'global_features.txt': [2]}


def gen_case(rng):
    opts = kgen.Opts(p_part=rng.choice([0.5, 0.9]), id_pool=4, fancy_ids=True, max_rows=5, image_pool=5, partial_poses=True, odd_paths=True,
                     nested_rigs=rng.random() < 0.4)
    # 'before': what the same process loaded just before (nothing, a legacy 1.0 directory, a directory of a newer version that
    # is refused): what a conformant directory loads to must not depend on it
    return {'d': kgen.gen_dataset(rng, opts), 'layout': rng.randrange(10 ** 9), 'before': rng.choice([None, None, '1.0', '1.0', '2.0'])}


def cases(rng, tier):
    n = 100 if tier == 'quick' else 3000
    return [gen_case(rng) for _ in range(n)]


def blanks(rng):
    return ''.join(rng.choice(' \t') for _ in range(rng.choice([0, 0, 1, 1, 2, 3])))


def zero_pad(tok, rng):
    k = rng.choice([0, 0, 1, 3])
    if k == 0 or tok == '':
        return tok
    return ('-' + '0' * k + tok[1:]) if tok.startswith('-') else ('0' * k + tok)


FLOAT_COLS = {'trajectories.txt': list(range(2, 9)), 'rigs.txt': list(range(2, 9)), 'records_gnss.txt': [2, 3, 4],
              'records_accelerometer.txt': [2, 3, 4], 'records_gyroscope.txt': [2, 3, 4], 'records_magnetic.txt': [2, 3, 4]}


def respell(tok, rng):
    """ another decimal spelling of the same number (the format says `float`, not `the repr of CPython`): '1.' for '1.0', '.5' for
    '0.5', an explicit '+', 'E' for 'e', more zeros; kept only when it denotes bit for bit the same double """
    if tok == '' or rng.random() < 0.6:
        return tok
    try:
        want = float(tok).hex()
    except ValueError:
        return tok
    cands = []
    if tok.endswith('.0'):
        cands += [tok[:-1], tok + '0', tok[:-2] + '.000']
    body = tok.lstrip('-')
    sign = tok[:len(tok) - len(body)]
    if body.startswith('0.') and len(body) > 2:
        cands.append(sign + body[1:])
    if not sign:
        cands.append('+' + tok)
    if 'e' in tok:
        cands.append(tok.replace('e', 'E'))
    elif '.' in tok:
        cands.append(tok + 'e0')
    cands = [c for c in cands if _hex_or_none(c) == want]
    return rng.choice(cands) if cands else tok


def _hex_or_none(t):
    try:
        return float(t).hex()
    except ValueError:
        return None


def relayout(rel, text, rng):
    """ returns (spec lines for the model, eols) of a conformant re-rendering of one written file """
    fname = os.path.basename(rel)
    raw = text.split('\n')
    header = [l for l in raw if l.startswith('#')]
    rows = specreader.read_rows_text(text)
    if fname != 'points3d.txt':
        rng.shuffle(rows)
    lines = [['c', header[0]]]
    # the columns comment is a comment: it may be missing, or stand anywhere after the version line (a data row may
    # directly follow the version line); kept in place when there is no data row (points3d: it then tells the width)
    where = rng.choice(['first', 'first', 'dropped', 'later']) if rows else 'first'
    later_at = rng.randint(1, len(rows)) if where == 'later' else None
    if where == 'first':
        for h in header[1:]:
            lines.append(['c', h])
    for ri, r in enumerate(rows):
        if later_at is not None and ri == later_at:
            for h in header[1:]:
                lines.append(['c', h])
        if rng.random() < 0.3:
            lines.append(rng.choice([['c', '# a comment, with, commas'], ['b', blanks(rng)], ['c', '#']]))
        fields = list(r)
        ic = INT_COLS.get(fname, [])
        if ic == 'obs':
            ic = [0] + list(range(3, len(fields), 2))
        for i in ic:
            if i < len(fields):
                fields[i] = zero_pad(fields[i], rng)
        for i in FLOAT_COLS.get(fname, []):
            if i < len(fields):
                fields[i] = respell(fields[i], rng)
        lines.append(['d', [blanks(rng) for _ in fields], [blanks(rng) for _ in fields], fields])
    if later_at is not None and later_at == len(rows):
        for h in header[1:]:
            lines.append(['c', h])
    if rng.random() < 0.3:
        lines.append(['b', ''])
    eols = [rng.choice(['\n', '\n', '\r\n', '\r']) for _ in lines]
    if rng.random() < 0.3:
        eols = eols[:-1]
    return lines, eols


def render(lines, eols):
    out = []
    for i, l in enumerate(lines):
        if l[0] in 'cb':
            t = l[1]
        else:
            t = ','.join(a + f + b for a, f, b in zip(l[1], l[3], l[2]))
        out.append(t)
        if i < len(eols):
            out.append(eols[i])
        elif i < len(lines) - 1:
            out.append('\n')
    return ''.join(out)


def read_rows_text(text):
    rows = []
    for line in text.replace('\r\n', '\n').replace('\r', '\n').split('\n'):
        if line.startswith('#') or line.strip() == '':
            continue
        rows.append([f.strip() for f in line.split(',')])
    return rows


specreader.read_rows_text = read_rows_text


def run_real(case):
    k = json.dumps(case, sort_keys=True)
    if k in _cache:
        return _cache[k]
    _cache.clear()
    from kapture.io.csv import kapture_to_dir, kapture_from_dir, table_from_file
    base = tempfile.mkdtemp(prefix='c02_')
    res = {}
    try:
        a_dir, b_dir = os.path.join(base, 'a'), os.path.join(base, 'b')
        kobj = kgen.build(case['d'])
        res['orig'] = kgen.describe(kobj)
        try:
            kapture_to_dir(a_dir, kobj)
            kgen.write_data_files(case['d'], a_dir, 's')
            res['spec'] = specreader.read_dataset(a_dir)
            files = c01.read_tree(a_dir)
            shutil.copytree(a_dir, b_dir)
            rng = random.Random(case['layout'])
            res['layouts'] = {}
            for rel in sorted(files):
                lines, eols = relayout(rel, files[rel], rng)
                text = render(lines, eols)
                with open(os.path.join(b_dir, rel), 'wb') as f:
                    f.write(text.encode('utf-8'))
                rows = [list(r) for r in table_from_file(io.StringIO(text, newline=None))] if not rel.endswith('points3d.txt') else None
                res['layouts'][rel] = {'lines': lines, 'eols': eols, 'text': text, 'rows': rows}
            if case.get('before'):
                other = os.path.join(base, 'other')
                os.makedirs(os.path.join(other, 'sensors'))
                with open(os.path.join(other, 'sensors', 'sensors.txt'), 'w') as f:
                    f.write(f'# kapture format: {case["before"]}\n# sensor_id, name, sensor_type, [sensor_params]+\ncam0, , camera, SIMPLE_PINHOLE, 640, 480, 500, 320, 240\n')
                try:
                    kapture_from_dir(other)
                except Exception:
                    pass            # a newer version is refused: fine
            res['reloaded'] = kgen.describe(kapture_from_dir(b_dir))
            res['reloaded_pairs'] = None
            if res['orig']['matches']:
                # the same directory loaded WITH a pairs file (image_name1, image_name2, score per line, in the same text format)
                # that lists every stored pair, half of them the other way round, plus a pair that is not stored: the same dataset
                prng = random.Random(case['layout'] + 1)
                pairs = sorted({tuple(pq) for ps in res['orig']['matches'].values() for pq in ps})
                lines = ['# kapture format: 1.1', '# query_image, map_image, score']
                for a_, b_ in pairs:
                    a_, b_ = (b_, a_) if prng.random() < 0.5 else (a_, b_)
                    lines.append(f'{a_}, {b_}, {prng.random()}')
                lines.append('ghost_a.jpg, ghost_b.jpg, 0.5')
                pf = os.path.join(base, 'pairs.txt')
                with open(pf, 'w') as f:
                    f.write('\n'.join(lines) + '\n')
                res['reloaded_pairs'] = kgen.describe(kapture_from_dir(b_dir, matches_pairs_file_path=pf))
            res['error'] = None
        except Exception as e:
            import traceback
            res['error'] = type(e).__name__ + ': ' + str(e)[:200] + ' @ ' + traceback.format_exc().strip().split('\n')[-3].strip()[:120]
    finally:
        shutil.rmtree(base, ignore_errors=True)
    _cache[k] = res
    return res


def run_impl(case):
    r = run_real(case)
    if r['error']:
        return {'error': r['error']}
    return {'layouts': {p: {'text': v['text'], 'rows': v['rows']} for p, v in r['layouts'].items()}}


def to_model(case):
    r = run_real(case)
    if r['error']:
        return []
    return [{'op': 'render', 'lines': v['lines'], 'eols': v['eols']} for p, v in sorted(r['layouts'].items())]


def compare(case, io_, mo):
    if 'error' in io_:
        return f'implementation raised {io_["error"]}'
    for (p, v), m in zip(sorted(io_['layouts'].items()), mo):
        if m.get('text') != v['text']:
            return f'{p}: the specification model renders the layout differently'
        if m['parsed'] != m['content']:
            return f'{p}: model parseFile {str(m["parsed"])[:200]} != specified content {str(m["content"])[:200]}'
        if v['rows'] is not None and v['rows'] != m['content']:
            return f'{p}: table_from_file {str(v["rows"])[:200]} != specified content {str(m["content"])[:200]}'
    return None


def same(a, b, what):
    for p in kgen.PART_NAMES:
        x, y = a[p], b[p]
        if p == 'points3d':
            if not c01.close_points(x, y):
                return f'{what}: points3d {str(x)[:120]} vs {str(y)[:120]}'
            continue
        if p == 'records_gnss' and x is not None and not any(s['type'] == 'gnss' for s in (a['sensors'] or {}).values()):
            continue
        if p == 'observations':
            x = None if x is None else sorted(x)
            y = None if y is None else sorted(y)
            if x == [] and y is None:
                continue
        if p == 'sensors' and x is not None and y is not None:
            y = {k: dict(v, name=v['name'] or '') for k, v in y.items()}
        if p in ('keypoints', 'descriptors', 'global_features') and y is not None:
            y = {t: {k: v for k, v in e.items() if k != 'name'} for t, e in y.items()}
        if x != y:
            return f'{what}: {p}: {str(x)[:200]} vs {str(y)[:200]}'
    return None


def oracle(case):
    r = run_real(case)
    if r['error']:
        return {'signature': 'raises:' + r['error'].split(':')[0], 'detail': r['error']}
    if r['spec'].get('version') != '1.1':
        return {'signature': 'version-line', 'detail': f'first line of sensors.txt gives {r["spec"].get("version")!r}'}
    d = same(r['orig'], r['spec'], 'independent reader')
    if d:
        return {'signature': 'not-conformant', 'detail': d}
    d = same(r['orig'], r['reloaded'], 'reload of the re-laid-out files')
    if d:
        return {'signature': 'conformant-file-misread', 'detail': d}
    if r.get('reloaded_pairs') is not None:
        d = same(r['orig'], r['reloaded_pairs'], 'reload with a pairs file listing every stored pair')
        if d:
            return {'signature': 'pairs-file-misread', 'detail': d}
    return None


def nontrivial(case):
    r = run_real(case)
    if r.get('error') or len(r['layouts']) < 5:
        return None
    return json.dumps([case['d'], case['layout']], sort_keys=True)


def distribution(cases_):
    d = {}
    for c in cases_:
        for p in kgen.PART_NAMES:
            if c['d'][p] is not None:
                d['has:' + p] = d.get('has:' + p, 0) + 1
    return d


shrink = c01.shrink
