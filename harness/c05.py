"""
C05 — poses form a rigid-transform group.
Correspondence: PoseTransform.{compose, inverse, transform_points} and _as_rotation_matrix_njit on floats versus the
Lean model (Model/C05.lean, rotation entries generated from the source) evaluated on the same inputs as exact rationals;
|impl - model| <= 1e-9 * scale, evaluated exactly with fractions.
Oracle (implementation only): the group laws themselves at 1e-9, observed through transform_points on a frame of
points, plus operand immutability.
"""
import math
from fractions import Fraction

import numpy as np

ID = 'C05'
TITLE = 'Poses form a rigid-transform group'
GEN = ['RotMat']
RULE = ('cases are op in {rot, compose(1..6 poses), inverse, transform(Nx3|Nx6), hist (a history of inverse / rescale-in-place / compose over a pool of pose objects)} over quaternions drawn from {unit, scaled '
        '1e-3..1e3, near-180-degree, axis-aligned, random} and translations up to 1e6; distinct non-trivial = distinct '
        '(op, quaternion classes, chain length, point columns) with at least one non-axis-aligned rotation')
ASSUMPTIONS = [
    'IEEE double rounding is not modelled: implementation floats are compared with the exact rational model at 1e-9 relative',
    'numpy-quaternion Hamilton product and inverse are modelled by Base/Vec.lean (checked by this correspondence)',
    'the shell 0 < |q_norm - 1| < 1e-14 where the code uses the unit formula is outside the exact theorem (difference <= 1e-14)',
]
TRUSTED = ['numpy matmul/add (modelled as exact matrix-vector arithmetic)']
TOL = Fraction(1, 10 ** 9)


def kapture():
    import kapture
    return kapture


def H(x):
    return float(x).hex()


def F(h):
    return float.fromhex(h)


def rat(x):
    fr = Fraction(float(x))
    return f'{fr.numerator}/{fr.denominator}'


def unrat(s):
    n, d = s.split('/')
    return Fraction(int(n), int(d))


# ------------------------------------------------------------------------------------------------------- generators

def gen_quat(rng):
    cls = rng.choice(['unit', 'scaled', 'near180', 'axis', 'random', 'smallangle', 'nearunit', 'lattice'])
    if cls == 'axis':
        q = rng.choice([[1, 0, 0, 0], [0, 1, 0, 0], [0, 0, 1, 0], [0, 0, 0, 1], [-1, 0, 0, 0],
                        [math.sqrt(0.5), math.sqrt(0.5), 0, 0], [math.sqrt(0.5), 0, -math.sqrt(0.5), 0],
                        [0.5, 0.5, 0.5, 0.5]])
        q = [float(v) for v in q]
    else:
        v = [rng.gauss(0, 1) for _ in range(4)]
        n = math.sqrt(sum(a * a for a in v)) or 1.0
        q = [a / n for a in v]
        if cls == 'near180':
            q[0] = rng.choice([0.0, 1e-9, -1e-7, 1e-12]) * rng.random()
            n = math.sqrt(sum(a * a for a in q))
            q = [a / n for a in q]
        elif cls == 'smallangle':
            eps = 10.0 ** rng.uniform(-9, -3)
            q = [1.0, q[1] * eps, q[2] * eps, q[3] * eps]
            n = math.sqrt(sum(a * a for a in q))
            q = [a / n for a in q]
        elif cls == 'lattice':
            # hand-written, NOT normalised quaternions with exactly representable components ([1,1,0,0], [1,0,0,1], [0,2,0,0] ...):
            # any shortcut keyed on a component being exactly 1.0 or 0.0 must still be a rotation
            while True:
                q = [float(rng.choice([0, 0, 1, 1, -1, 0.5, 2, 10])) for _ in range(4)]
                if any(q):
                    break
        elif cls == 'nearunit':
            # almost-unit quaternions as they occur in practice: read from 6-decimal text, rounded through float32,
            # or carrying a relative norm error between 1e-13 and 1e-4 (any norm shortcut must still be a rotation)
            how = rng.choice(['text6', 'float32', 'factor', 'factor'])
            if how == 'text6':
                q = [float('%.6f' % a) for a in q]
            elif how == 'float32':
                import struct
                q = [struct.unpack('f', struct.pack('f', a))[0] for a in q]
            else:
                f = 1.0 + rng.choice([1, -1]) * 10.0 ** rng.uniform(-13, -4)
                q = [a * f for a in q]
        elif cls == 'scaled':
            s = 10.0 ** rng.uniform(-3, 3) * rng.choice([1, -1])
            q = [a * s for a in q]
        elif cls == 'random':
            q = [rng.uniform(-2, 2) for _ in range(4)]
            if sum(a * a for a in q) < 1e-2:
                q[0] += 1.0
    return cls, q


def gen_t(rng):
    mag = rng.choice([0.0, 1.0, 1e-3, 1e3, 1e6])
    return [rng.uniform(-mag, mag) for _ in range(3)]


def gen_pose(rng):
    cls, q = gen_quat(rng)
    return cls, [H(v) for v in q + gen_t(rng)]


def gen_points(rng):
    n = rng.choice([0, 1, 2, 5])
    cols = rng.choice([3, 6])
    mag = rng.choice([1.0, 1e3, 1e6])
    return [[H(rng.uniform(-mag, mag)) for _ in range(3)] + [H(float(rng.randrange(256))) for _ in range(cols - 3)]
            for _ in range(n)], cols


def cases(rng, tier):
    n = 1200 if tier == 'quick' else 30000
    out = []
    for _ in range(n):
        op = rng.choice(['rot', 'compose', 'compose', 'inverse', 'transform'])
        if op == 'rot':
            cls, q = gen_quat(rng)
            out.append({'op': 'rot', 'q': [H(v) for v in q], 'cls': [cls]})
        elif op == 'compose':
            k = rng.randint(1, 6)
            ps = [gen_pose(rng) for _ in range(k)]
            out.append({'op': 'compose', 'poses': [p for _, p in ps], 'cls': [c for c, _ in ps], 'split': rng.randint(1, k)})
        elif op == 'inverse':
            c, p = gen_pose(rng)
            out.append({'op': 'inverse', 'pose': p, 'cls': [c]})
        else:
            c, p = gen_pose(rng)
            pts, cols = gen_points(rng)
            out.append({'op': 'transform', 'pose': p, 'points': pts, 'cols': cols, 'cls': [c]})
    # histories over pose OBJECTS: inverse / compose results join a pool, rescale changes one object in place; at the end
    # every object is read back and inverted once more
    for _ in range(n // 12):
        pool = [gen_pose(rng) for _ in range(rng.randint(1, 3))]
        steps, size = [], len(pool)
        for _ in range(rng.randint(2, 7)):
            kind = rng.choice(['inverse', 'inverse', 'rescale', 'rescale', 'compose'])
            if kind == 'inverse':
                steps.append(['inverse', rng.randrange(size)])
                size += 1
            elif kind == 'rescale':
                steps.append(['rescale', rng.randrange(size), H(rng.choice([2.0, 0.5, -1.0, 3.0, 1e-3, 1e3]))])
            else:
                # two or three poses: compose([p]) returns p ITSELF (an alias, not a copy: recorded in DESIGN.md, not findings),
                # which a value model of the pool does not describe
                steps.append(['compose', [rng.randrange(size) for _ in range(rng.randint(2, 3))]])
                size += 1
        out.append({'op': 'hist', 'pool': [p for _, p in pool], 'cls': [c for c, _ in pool], 'steps': steps})
    return out


def nontrivial(c):
    if all(k == 'axis' for k in c['cls']):
        return None
    return (c['op'], tuple(c['cls']), c.get('cols', 0), len(c.get('points', [])))


def distribution(cases_):
    d = {}
    for c in cases_:
        d[c['op']] = d.get(c['op'], 0) + 1
        for k in c['cls']:
            d['q:' + k] = d.get('q:' + k, 0) + 1
    return d


# ------------------------------------------------------------------------------------------------------- implementation

def mk_pose(p):
    k = kapture()
    v = [F(h) for h in p]
    return k.PoseTransform(r=v[0:4], t=v[4:7])


def pose_out(p):
    return [H(v) for v in p.r_raw + p.t_raw]


def run_impl(c):
    k = kapture()
    try:
        if c['op'] == 'rot':
            from kapture.core.PoseTransform import _as_rotation_matrix_njit
            m = np.empty((3, 3), dtype=float)
            _as_rotation_matrix_njit(np.array([F(h) for h in c['q']]), m)
            return {'m': [H(v) for v in m.flatten().tolist()]}
        if c['op'] == 'compose':
            return {'pose': pose_out(k.PoseTransform.compose([mk_pose(p) for p in c['poses']]))}
        if c['op'] == 'inverse':
            return {'pose': pose_out(mk_pose(c['pose']).inverse())}
        if c['op'] == 'transform':
            pts = np.array([[F(h) for h in row] for row in c['points']], dtype=float).reshape((-1, c['cols']))
            res = mk_pose(c['pose']).transform_points(pts)
            return {'points': [[H(v) for v in row] for row in res.tolist()]}
        if c['op'] == 'hist':
            return {'pool': [pose_out(p) for p in run_hist(c)]}
    except Exception as e:
        return {'error': type(e).__name__}
    return {'error': 'bad-op'}


def run_hist(c):
    k = kapture()
    pool = [mk_pose(p) for p in c['pool']]
    for st in c['steps']:
        if st[0] == 'inverse':
            pool.append(pool[st[1]].inverse())
        elif st[0] == 'rescale':
            pool[st[1]].rescale(F(st[2]))
        else:
            pool.append(k.PoseTransform.compose([pool[i] for i in st[1]]))
    return pool


def to_model(c):
    if c['op'] == 'hist':
        return [{'op': 'hist', 'pool': [[rat(F(h)) for h in p] for p in c['pool']],
                 'steps': [[st[0], st[1], rat(F(st[2]))] if st[0] == 'rescale' else st for st in c['steps']]}]
    if c['op'] == 'rot':
        return [{'op': 'rot', 'q': [rat(F(h)) for h in c['q']]}]
    if c['op'] == 'compose':
        return [{'op': 'compose', 'poses': [[rat(F(h)) for h in p] for p in c['poses']]}]
    if c['op'] == 'inverse':
        return [{'op': 'inverse', 'pose': [rat(F(h)) for h in c['pose']]}]
    return [{'op': 'transform', 'pose': [rat(F(h)) for h in c['pose']],
             'points': [[rat(F(h)) for h in row] for row in c['points']]}]


def close(impl_h, model_s, scale):
    a = Fraction(F(impl_h))
    b = unrat(model_s)
    return abs(a - b) <= TOL * scale


def qscale(p):
    return max(Fraction(1, 10 ** 6), sum(Fraction(F(h)) ** 2 for h in p[0:4]))


def compare(c, io, mo):
    mo = mo[0]
    if 'error' in io or 'error' in mo:
        return None if io.get('error') == mo.get('error') else f'errors differ: impl={io} model={mo}'
    if c['op'] == 'rot':
        for i, (a, b) in enumerate(zip(io['m'], mo['m'])):
            if not close(a, b, 1):
                return f'rotation entry {i}: impl {F(a)!r} model {float(unrat(b))!r}'
        return None
    if c['op'] in ('compose', 'inverse'):
        poses = c['poses'] if c['op'] == 'compose' else [c['pose']]
        # quaternion scale: product of the factors' norms (compose), 1/norm (inverse)
        qs = Fraction(1)
        for p in poses:
            n2 = qscale(p)
            qs *= n2
        import math as _m
        qmag = Fraction(_m.sqrt(float(qs))) if c['op'] == 'compose' else Fraction(1 / _m.sqrt(float(qs)))
        tmag = max([Fraction(1)] + [abs(Fraction(F(h))) for p in poses for h in p[4:7]]) * len(poses)
        for i, (a, b) in enumerate(zip(io['pose'], mo['pose'])):
            sc = max(qmag, Fraction(1, 10 ** 9)) if i < 4 else tmag
            if not close(a, b, sc):
                return f'pose component {i}: impl {F(a)!r} model {float(unrat(b))!r} (scale {float(sc)!r})'
        return None
    if c['op'] == 'hist':
        if len(io['pool']) != len(mo['pool']):
            return f'pool size: impl {len(io["pool"])} model {len(mo["pool"])}'
        # the size of the numbers that went INTO each object (a composition that cancels two translations of size 2^19 carries
        # the rounding of size 2^19, and a later rescale by 1000 multiplies it): inverse keeps it, compose adds, rescale scales
        into = [max([Fraction(1)] + [abs(Fraction(F(h))) for h in p[4:7]]) for p in c['pool']]
        for st in c['steps']:
            if st[0] == 'inverse':
                into.append(into[st[1]])
            elif st[0] == 'compose':
                into.append(sum(into[j] for j in st[1]))
            else:
                into.append(into[st[1]] * max(Fraction(1), abs(Fraction(F(st[2])))))
        for k_, (pa, pb) in enumerate(zip(io['pool'], mo['pool'])):
            qm = max(Fraction(1, 10 ** 9), max(abs(unrat(x)) for x in pb[0:4]))
            tm = max([Fraction(1)] + [abs(unrat(x)) for x in pb[4:7]] + ([into[k_]] if k_ < len(into) else [])) * 10
            for i, (a, b) in enumerate(zip(pa, pb)):
                if not close(a, b, qm if i < 4 else tm):
                    return f'object {k_} component {i}: impl {F(a)!r} model {float(unrat(b))!r}'
        return None
    if c['op'] == 'transform':
        if len(io['points']) != len(mo['points']):
            return f'row count: impl {len(io["points"])} model {len(mo["points"])}'
        mag = max([Fraction(1)] + [abs(Fraction(F(h))) for h in c['pose'][4:7]]
                  + [abs(Fraction(F(h))) for row in c['points'] for h in row[0:3]])
        for r, (ra, rb) in enumerate(zip(io['points'], mo['points'])):
            if len(ra) != 3:
                return f'row {r} has {len(ra)} columns'
            for i, (a, b) in enumerate(zip(ra, rb)):
                if not close(a, b, 2 * mag):
                    return f'point {r},{i}: impl {F(a)!r} model {float(unrat(b))!r}'
        return None
    return 'bad-op'


# ------------------------------------------------------------------------------------------------------- oracle

FRAME = np.array([[0.0, 0, 0], [1, 0, 0], [0, 1, 0], [0, 0, 1], [1, 2, 3], [-4, 0.5, 2]])


def snap(p):
    return (tuple(p.r_raw), tuple(p.t_raw))


def _close_pts(a, b, scale, tol=1e-9):
    return a.shape == b.shape and bool(np.all(np.abs(a - b) <= tol * scale))


def oracle(c):
    """ the laws of the property on the implementation only """
    k = kapture()
    try:
        if c['op'] == 'rot':
            cq = [F(h) for h in c['q']]
            p = k.PoseTransform(r=cq, t=[0.0, 0, 0])
            y = p.transform_points(FRAME.copy())
            # isometry of the pure rotation + scale invariance
            d0 = np.linalg.norm(FRAME[:, None, :] - FRAME[None, :, :], axis=2)
            d1 = np.linalg.norm(y[:, None, :] - y[None, :, :], axis=2)
            if not _close_pts(d0, d1, 10.0):
                return {'signature': 'isometry', 'detail': 'rotation does not preserve distances'}
            p2 = k.PoseTransform(r=[v * -3.0 for v in cq], t=[0.0, 0, 0])
            if not _close_pts(y, p2.transform_points(FRAME.copy()), 10.0):
                return {'signature': 'scale-invariance', 'detail': 'R(-3q) != R(q)'}
            return None
        if c['op'] == 'compose':
            ps = [mk_pose(p) for p in c['poses']]
            before = [snap(p) for p in ps]
            whole = k.PoseTransform.compose(ps)
            if [snap(p) for p in ps] != before:
                return {'signature': 'operands-modified', 'detail': 'compose modified an operand'}
            tmag = max([1.0] + [abs(v) for p in ps for v in p.t_raw]) * len(ps) * 10
            y = whole.transform_points(FRAME.copy())
            # successive application, right-most first
            z = FRAME.copy()
            for p in reversed(ps):
                z = p.transform_points(z)
            if not _close_pts(y, z, tmag):
                return {'signature': 'chain-law', 'detail': 'transform by composition != successive transforms'}
            s = c['split']
            if 0 < s < len(ps):
                two = k.PoseTransform.compose([k.PoseTransform.compose(ps[:s]), k.PoseTransform.compose(ps[s:])])
                if not _close_pts(y, two.transform_points(FRAME.copy()), tmag):
                    return {'signature': 'associativity', 'detail': f'bracketing at {s} differs'}
            return None
        if c['op'] == 'inverse':
            p = mk_pose(c['pose'])
            before = snap(p)
            inv = p.inverse()
            if snap(p) != before:
                return {'signature': 'operands-modified', 'detail': 'inverse modified its operand'}
            tmag = max([1.0] + [abs(v) for v in p.t_raw]) * 10
            for name, lst in (('p*inv', [p, inv]), ('inv*p', [inv, p])):
                e = k.PoseTransform.compose(lst)
                if not _close_pts(e.transform_points(FRAME.copy()), FRAME, tmag):
                    return {'signature': 'inverse-law', 'detail': f'{name} is not the identity'}
            ii = inv.inverse()
            if not _close_pts(ii.transform_points(FRAME.copy()), p.transform_points(FRAME.copy()), tmag):
                return {'signature': 'inverse-inverse', 'detail': 'inverse(inverse(p)) != p'}
            return None
        if c['op'] == 'hist':
            # whatever happened before, every object of the pool composed with its inverse AS ASKED NOW is the identity, and
            # asking does not change it
            for idx, p in enumerate(run_hist(c)):
                before = snap(p)
                inv = p.inverse()
                if snap(p) != before:
                    return {'signature': 'operands-modified', 'detail': f'inverse modified object {idx}'}
                tmag = max([1.0] + [abs(v) for v in p.t_raw]) * 10
                e = k.PoseTransform.compose([p, inv])
                if not _close_pts(e.transform_points(FRAME.copy()), FRAME, tmag):
                    return {'signature': 'inverse-law', 'detail': f'object {idx} of the history composed with its inverse is not the identity'}
            return None
        if c['op'] == 'transform':
            p = mk_pose(c['pose'])
            pts = np.array([[F(h) for h in row] for row in c['points']], dtype=float).reshape((-1, c['cols']))
            keep = pts.copy()
            before = snap(p)
            y = p.transform_points(pts)
            if snap(p) != before or not np.array_equal(keep, pts):
                return {'signature': 'operands-modified', 'detail': 'transform_points modified an operand'}
            if y.shape != (pts.shape[0], 3):
                return {'signature': 'shape', 'detail': f'output shape {y.shape}'}
            if len(pts) >= 2:
                x = pts[:, 0:3]
                d0 = np.linalg.norm(x[:, None, :] - x[None, :, :], axis=2)
                d1 = np.linalg.norm(y[:, None, :] - y[None, :, :], axis=2)
                mag = max(1.0, float(np.max(np.abs(x))), max(abs(v) for v in p.t_raw))
                if not _close_pts(d0, d1, 10 * mag):
                    return {'signature': 'isometry', 'detail': 'transform_points does not preserve distances'}
            return None
    except Exception as e:
        return {'signature': 'exception:' + type(e).__name__, 'detail': repr(e)}
    return None
