"""
C15 — OpenSfM export then import preserves shots, poses, cameras, points, matches  (level: proof, PARTIAL).

Correspondence: the REAL loop  kapture dir --export_opensfm--> OpenSfM project --import_opensfm--> kapture dir  versus
Model/C15.lean on the same input: the exported cameras (width, height, normalised focal, k1, k2) and the re-imported
camera parameters (exact rationals, focal at 1e-12 relative), the keys of the exported "points" dict and the order in which
the importer reads them back, the exported shots dict and the re-imported (timestamp, camera, image, pose) rows, the
feature file names, the match pickles (file name, image2 keys, integer index pairs) and the re-imported pairs and rows.
Oracle (implementation only, no model code): the property itself evaluated on the dataset loaded before the export and the
dataset loaded after the import: image -> camera binding, pose per image (rotation as a rotation at 1e-9, translation
verbatim), camera parameters, the point sequence with colours (exact, in order), keypoints / descriptors files (bytes, dtype,
width, image set), match pairs and index columns.
"""
import gzip
import hashlib
import json
import os
import pickle
import shutil
import tempfile
from fractions import Fraction

import numpy as np

import kgen

ID = 'C15'
TITLE = 'OpenSfM export then import preserves shots, poses, cameras, points, matches'
# Gen/NumDigits translates kapture.utils.computation.num_digits, which the OpenSfM exporter does not call
# (export_opensfm.py:363-365 uses len(str(max(n - 1, 0))) and str.zfill): the key function is modelled by hand on
# Nat.toDigits in Model/C15.lean, and nothing generated is imported by this property.
GEN = ['OsfmCamera']
RULE = ('each case = one generated dataset inside OpenSfM\'s perspective model: 1..3 cameras SIMPLE_PINHOLE / SIMPLE_RADIAL / '
        'RADIAL with integer image size and centred principal point, 1..8 records with distinct image names (sub-directories, '
        'spaces, unicode), every image posed (random / identity / half-turn / tiny-angle / negative-w unit quaternions), points3d '
        'absent or 0..1500 coloured points (sizes around 10, 100, 1000 over-represented), with or without float32|float64 '
        'keypoints of 2/4/6 columns + uint8|float32 descriptors on a subset of the images, with or without matches holding '
        'integer-valued index pairs, keypoints / descriptors types given explicitly or inferred, feature kinds of the SOURCE stored as loose files or (25% each) packed in the tar layout, image files skipped or copied; '
        'plus a few out-of-statement variants (unsupported camera type, unposed image, off-centre principal point) that '
        'exercise the model\'s error paths; distinct non-trivial = distinct cases with more than 10 points or with matches')
ASSUMPTIONS = [
    'image names are distinct and every image has a pose (OpenSfM shots are keyed by image name and always carry a pose)',
    'image width and height are positive integers (the exporter writes int(width)); principal point at w/2, h/2',
    'an image has keypoints and descriptors together or neither (an OpenSfM features file always holds both arrays)',
    'match indices are integer-valued (the exporter keeps columns 0:2 as int); the match score is not exported (it re-imports as 1)',
    'one keypoints type and one descriptors type travel through an OpenSfM project (the selected or the only one)',
    'timestamps are not part of an OpenSfM shot: re-imported records are numbered 0..n-1 in shots order',
    'IEEE rounding is not modelled: floats are compared with the exact rational model at 1e-12 relative (focal) and the '
    'rotation is compared as a rotation at 1e-9',
]
TRUSTED = ['kgen.py dataset generator / writer', 'numpy-quaternion as_rotation_vector / from_rotation_vector (observed through the loop)',
           'json / numpy npz / gzip+pickle / kapture csv serialisation (observed through the loop)']
PARTIAL = ('outside the theorems: the JSON / npz / gzip-pickle / kapture text serialisation, os.walk, numpy array conversions, the '
           'rotation-vector <-> quaternion maps of numpy-quaternion and floating-point rounding are exercised by the full export -> '
           'import loops only, while the theorems cover the focal normalisation and camera mapping over exact rationals, the '
           'zero-padded point keys and their sorted re-reading for clouds of any size, the shot -> camera binding, file and pair '
           'naming, and the integer index columns of matches')

H, F = kgen.H, kgen.F
IN_RANGE = ['SIMPLE_PINHOLE', 'SIMPLE_RADIAL', 'RADIAL']
EMPTY_CLOUD_SIGNATURE = 'empty-point-cloud-import-raises'
_cache = {}


# ---------------------------------------------------------------------------------------------------------- generation

def gen_quat(rng):
    cls = rng.choice(['random', 'random', 'random', 'identity', 'halfturn', 'tiny', 'negw', 'axis'])
    v = [rng.gauss(0, 1) for _ in range(4)]
    if cls == 'identity':
        v = [1.0, 0.0, 0.0, 0.0]
    elif cls == 'halfturn':
        v[0] = 0.0
    elif cls == 'tiny':
        e = 10.0 ** rng.uniform(-9, -4)
        v = [1.0, v[1] * e, v[2] * e, v[3] * e]
    elif cls == 'negw':
        v[0] = -abs(v[0]) - 0.1
    elif cls == 'axis':
        v = rng.choice([[0.0, 1.0, 0.0, 0.0], [0.0, 0.0, 1.0, 0.0], [0.5, 0.5, 0.5, 0.5], [-1.0, 0.0, 0.0, 0.0],
                        [0.5 ** 0.5, 0.0, 0.5 ** 0.5, 0.0]])
    n = sum(a * a for a in v) ** 0.5 or 1.0
    return cls, [a / n for a in v]


def gen_translation(rng):
    mag = rng.choice([0.0, 1.0, 1e-3, 1e3, 1e6])
    t = [rng.uniform(-mag, mag) for _ in range(3)]
    if rng.random() < 0.2:
        t[rng.randrange(3)] = float(rng.randint(-9, 9))
    return t


def gen_points(rng, n):
    rows, seen = [], set()
    while len(rows) < n:
        xyz = tuple(rng.choice([rng.uniform(-100, 100), float(rng.randint(-50, 50)), rng.uniform(-1e-3, 1e-3), 1e5 / 3 * rng.random()])
                    for _ in range(3))
        if xyz in seen:
            continue
        seen.add(xyz)
        rows.append([H(v) for v in xyz] + [H(float(rng.randrange(256))) for _ in range(3)])
    return rows


POINT_SIZES_SMALL = [1, 2, 3, 5, 9, 10, 11, 12, 13, 20, 37, 99, 100, 101, 102, 110, 150]
POINT_SIZES_BIG = [999, 1000, 1001, 1234, 1500]


def gen_case(rng, tier, allow_big=True):
    variant = 'ok'
    x = rng.random()
    if x < 0.04:
        variant = 'other_camera'
    elif x < 0.08:
        variant = 'unposed'
    elif x < 0.12:
        variant = 'offcentre'
    fancy = rng.random() < 0.3
    cams = {}
    for k in range(rng.choice([1, 1, 2, 3])):
        model = rng.choice(IN_RANGE)
        w, h = rng.choice([(640, 480), (480, 640), (1920, 1080), (1, 1), (4000, 3000), (1001, 333), (512, 512),
                           (rng.randint(1, 5000), rng.randint(1, 5000))])
        f = rng.choice([float(rng.randint(1, 3000)), rng.uniform(0.1, 5000.0), 1e-3, 0.7 * max(w, h), 1.0 / 3, 1e5])
        cid = f'cam{k}' + (rng.choice(kgen.ID_TAILS) if fancy else '')
        cams[cid] = {'model': model, 'w': w, 'h': h, 'f': H(f), 'cx': H(w / 2), 'cy': H(h / 2),
                     'k1': H(rng.choice([0.0, rng.uniform(-0.5, 0.5), 1e-7, -0.012345678901234567])),
                     'k2': H(rng.choice([0.0, rng.uniform(-0.5, 0.5), 3.5]))}
    cam_ids = list(cams)
    if variant == 'other_camera':
        c = cams[rng.choice(cam_ids)]
        c['model'] = rng.choice(['PINHOLE', 'OPENCV', 'FOV', 'OPENCV_FISHEYE'])
    if variant == 'offcentre':
        c = cams[rng.choice(cam_ids)]
        c['cx'] = H(F(c['cx']) + rng.choice([0.5, -3.25, 10.0]))
        c['cy'] = H(F(c['cy']) + rng.choice([0.0, 1.5]))
    nimg = rng.choice([1, 2, 3, 3, 4, 5, 8])
    style = rng.choice(['small', 'epoch', 'wide', 'signed'])
    records, used, poses = [], set(), []
    numbers = rng.sample(range(40), nimg)
    for k in numbers:
        sub = rng.choice(['', '', 'seq a/', 'cam0/sub.dir/', 'ünï/']) if fancy else rng.choice(['', '', 'left/'])
        # extensions and extension-less names: their last characters matter to anything that strips a suffix by character set
        ext = rng.choice(['.jpg', '.jpg', '.png', '.tif', '.tiff', '.bmp', '.jpe', '.JPG', '', '.features', '.npz'])
        name = f'{sub}img{k:02d}{ext}' if ext else f'{sub}frame{k:02d}s'
        while True:
            key = (kgen.gen_timestamp(rng, style), rng.choice(cam_ids))
            if key not in used:
                break
        used.add(key)
        records.append([key[0], key[1], name])
        cls, q = gen_quat(rng)
        poses.append({'cls': cls, 'r': [H(v) for v in q], 't': [H(v) for v in gen_translation(rng)]})
    if variant == 'unposed':
        poses[rng.randrange(nimg)] = None
    # points
    x = rng.random()
    if x < 0.12:
        points = None
    elif x < 0.20:
        points = []
    else:
        n = rng.choice(POINT_SIZES_BIG) if (allow_big and rng.random() < 0.03) else rng.choice(POINT_SIZES_SMALL)
        points = gen_points(rng, n)
    images = [r[2] for r in records]
    features, matches = None, None
    if rng.random() < 0.65:
        with_f = sorted(rng.sample(images, rng.randint(1, len(images))))
        features = {'kp_type': rng.choice(['sift', 'r2d2', 'HessianAffine']), 'desc_type': rng.choice(['hog', 'sift', 'HOG']),
                    'kdtype': rng.choice(['float32', 'float32', 'float64']), 'kdsize': rng.choice([2, 4, 6]),
                    'ddtype': rng.choice(['uint8', 'uint8', 'float32']), 'ddsize': rng.choice([8, 128, 3]),
                    'rows': {im: rng.choice([0, 1, 2, 5, 17]) for im in with_f}, 'seed': rng.randrange(2 ** 31),
                    'extra_type': rng.random() < 0.2}
        if len(with_f) >= 2 and rng.random() < 0.7:
            pairs = set()
            for _ in range(rng.randint(1, 6)):
                a, b = rng.sample(with_f, 2)
                pairs.add((min(a, b), max(a, b)))
            matches = []
            for a, b in sorted(pairs):
                rows = [[H(float(rng.randrange(60))), H(float(rng.randrange(60))), H(rng.choice([1.0, 0.0, rng.random(), 12.5]))]
                        for _ in range(rng.choice([0, 1, 2, 4, 9]))]
                matches.append([a, b, rows])
    explicit = True if (features and features['extra_type']) else rng.random() < 0.5
    return {'variant': variant, 'cameras': cams, 'records': records, 'poses': poses, 'points': points, 'features': features,
            'matches': matches, 'explicit': explicit, 'transfer': rng.choice(['skip', 'skip', 'copy']),
            # the source dataset keeps its feature / match files in the tar layout (keypoints.tar ...) instead of loose files
            'packed': sorted(k for k in ('keypoints', 'descriptors', 'matches') if rng.random() < 0.25)}


def cases(rng, tier):
    n = 300 if tier == 'quick' else 3000
    out = [gen_case(rng, tier) for _ in range(n)]
    # the sizes the statement insists on are always present, with and without features / matches
    for size in ([11, 101, 1001] if tier == 'quick' else [11, 12, 100, 101, 1000, 1001, 1500]):
        c = gen_case(rng, tier, allow_big=False)
        c['variant'] = 'forced'
        for cam in c['cameras'].values():
            if cam['model'] not in IN_RANGE:
                cam['model'] = 'RADIAL'
            cam['cx'], cam['cy'] = H(cam['w'] / 2), H(cam['h'] / 2)
        for i, p in enumerate(c['poses']):
            if p is None:
                cls, q = gen_quat(rng)
                c['poses'][i] = {'cls': cls, 'r': [H(v) for v in q], 't': [H(v) for v in gen_translation(rng)]}
        c['points'] = gen_points(rng, size)
        out.append(c)
    return out


def in_statement(case):
    return case['variant'] in ('ok', 'forced')


def nontrivial(case):
    if not in_statement(case):
        return None
    if (case['points'] is not None and len(case['points']) > 10) or case['matches']:
        return hashlib.md5(json.dumps(case, sort_keys=True).encode()).hexdigest()
    return None


def distribution(cases_):
    d = {}

    def bump(k):
        d[k] = d.get(k, 0) + 1
    for c in cases_:
        bump('variant:' + c['variant'])
        p = c['points']
        bump('points:' + ('none' if p is None else '0' if not p else '1-10' if len(p) <= 10 else '11-100' if len(p) <= 100
                          else '101-1000' if len(p) <= 1000 else '>1000'))
        bump('features:' + ('yes' if c['features'] else 'no'))
        bump('matches:' + ('yes' if c['matches'] else 'no'))
        bump('images:%d' % len(c['records']))
        for cam in c['cameras'].values():
            bump('model:' + cam['model'])
        for q in c['poses']:
            bump('pose:' + ('none' if q is None else q['cls']))
    return d


# ---------------------------------------------------------------------------------------------------------- materialise

def fmt(v):
    v = float(v)
    return str(int(v)) if v.is_integer() and abs(v) < 1e15 else repr(v)


def camera_params(cam):
    m = cam['model']
    base = [m, str(cam['w']), str(cam['h'])]
    f, cx, cy, k1, k2 = (fmt(F(cam[k])) for k in ('f', 'cx', 'cy', 'k1', 'k2'))
    if m == 'SIMPLE_PINHOLE':
        return base + [f, cx, cy]
    if m == 'SIMPLE_RADIAL':
        return base + [f, cx, cy, k1]
    if m == 'RADIAL':
        return base + [f, cx, cy, k1, k2]
    if m == 'PINHOLE':
        return base + [f, f, cx, cy]
    if m == 'OPENCV':
        return base + [f, f, cx, cy, k1, k2, '0', '0']
    if m == 'FOV':
        return base + [f, f, cx, cy, '0.5']
    return base + [f, f, cx, cy, k1, k2, '0', '0']      # OPENCV_FISHEYE


def feature_arrays(case):
    """ reference arrays: {'kp': {image: array}, 'desc': {image: array}} (deterministic in the case) """
    f = case['features']
    if not f:
        return {'kp': {}, 'desc': {}}
    r = np.random.RandomState(f['seed'])
    kp, desc = {}, {}
    for im in sorted(f['rows']):
        n = f['rows'][im]
        kp[im] = (r.rand(n, f['kdsize']) * 1000).astype(np.dtype(f['kdtype']))
        if np.dtype(f['ddtype']).kind == 'u':
            desc[im] = r.randint(0, 256, size=(n, f['ddsize'])).astype(np.dtype(f['ddtype']))
        else:
            desc[im] = r.rand(n, f['ddsize']).astype(np.dtype(f['ddtype']))
    return {'kp': kp, 'desc': desc}


def match_array(rows):
    return np.array([[F(v) for v in row] for row in rows], dtype=np.float64).reshape((-1, 3))


def description(case):
    d = {p: None for p in kgen.PART_NAMES}
    d['sensors'] = {cid: {'type': 'camera', 'params': camera_params(cam), 'name': None} for cid, cam in case['cameras'].items()}
    d['records_camera'] = [list(r) for r in case['records']]
    d['trajectories'] = [[r[0], r[1], {'r': p['r'], 't': p['t']}] for r, p in zip(case['records'], case['poses']) if p is not None]
    if case['points'] is not None:
        d['points3d'] = {'cols': 6, 'rows': case['points']}
    f = case['features']
    if f:
        ims = sorted(f['rows'])
        d['keypoints'] = {f['kp_type']: {'dtype': f['kdtype'], 'dsize': f['kdsize'], 'images': ims}}
        d['descriptors'] = {f['desc_type']: {'dtype': f['ddtype'], 'dsize': f['ddsize'], 'keypoints_type': f['kp_type'],
                                             'metric_type': 'L2', 'images': ims}}
        if f['extra_type']:
            d['keypoints']['zz_other'] = {'dtype': 'float32', 'dsize': 2, 'images': ims[:1]}
            d['descriptors']['zz_other'] = {'dtype': 'uint8', 'dsize': 3, 'keypoints_type': 'zz_other', 'metric_type': 'L2',
                                            'images': ims[:1]}
        if case['matches']:
            d['matches'] = {f['kp_type']: [[a, b] for a, b, _ in case['matches']]}
    return d


def write_source(case, root):
    """ csv through the real writer (kgen.write_dataset), then the in-range feature / match files with numpy directly """
    import kapture.io.features as kf
    kgen.write_dataset(description(case), root, 'c15')
    f = case['features']
    if f:
        arrs = feature_arrays(case)
        for im, a in arrs['kp'].items():
            p = kf.get_keypoints_fullpath(f['kp_type'], root, im)
            os.makedirs(os.path.dirname(p), exist_ok=True)
            with open(p, 'wb') as fh:
                fh.write(a.tobytes())
        for im, a in arrs['desc'].items():
            p = kf.get_descriptors_fullpath(f['desc_type'], root, im)
            os.makedirs(os.path.dirname(p), exist_ok=True)
            with open(p, 'wb') as fh:
                fh.write(a.tobytes())
        for a_, b_, rows in case['matches'] or []:
            p = kf.get_matches_fullpath((a_, b_), f['kp_type'], root)
            os.makedirs(os.path.dirname(p), exist_ok=True)
            with open(p, 'wb') as fh:
                fh.write(match_array(rows).tobytes())
        pack_feature_dirs(root, case.get('packed', []))


def pack_feature_dirs(root, kinds):
    """ moves the loose data files of every type folder of the given kinds into the type's tar archive (plain tarfile) """
    import tarfile
    for kind, ext in (('keypoints', '.kpt'), ('descriptors', '.desc'), ('matches', '.matches')):
        kdir = os.path.join(root, 'reconstruction', kind)
        if kind not in kinds or not os.path.isdir(kdir):
            continue
        for ty in sorted(os.listdir(kdir)):
            tdir = os.path.join(kdir, ty)
            if not os.path.isdir(tdir):
                continue
            files = [os.path.relpath(os.path.join(dp, fn), tdir) for dp, _, fns in os.walk(tdir) for fn in fns if fn.endswith(ext)]
            if not files:
                continue
            with tarfile.open(os.path.join(tdir, kind + '.tar'), 'w', format=tarfile.GNU_FORMAT) as tf:
                for rel in sorted(files):
                    tf.add(os.path.join(tdir, rel), arcname=rel.replace(os.sep, '/'))
            for rel in files:
                os.remove(os.path.join(tdir, rel))


def walk_files(root):
    out = []
    for dp, _, fs in os.walk(root):
        for fn in fs:
            out.append(os.path.relpath(os.path.join(dp, fn), root).replace(os.sep, '/'))
    return sorted(out)


def load_side(root, with_files):
    """ what a dataset on disk says, through the real loader; feature files are read as raw bytes """
    import kapture
    import kapture.io.features as kf
    from kapture.io.csv import get_all_tar_handlers, kapture_from_dir
    with get_all_tar_handlers(root) as th:
        k = kapture_from_dir(root, tar_handlers=th)
    side = {'records': [[int(ts), cam, img] for ts, cam, img in kapture.flatten(k.records_camera)] if k.records_camera is not None else [],
            'poses': {}, 'cameras': {}, 'points': None, 'keypoints': None, 'descriptors': None, 'matches': None}
    if k.trajectories is not None:
        for ts, cam, p in kapture.flatten(k.trajectories):
            side['poses'][json.dumps([int(ts), cam])] = {'r': None if p.r is None else [float(v) for v in p.r_raw],
                                                         't': None if p.t is None else [float(v) for v in p.t_raw]}
    for sid, s in (k.sensors or {}).items():
        if s.sensor_type == 'camera':
            side['cameras'][sid] = {'model': s.camera_type.name, 'params': [float(v) for v in s.camera_params]}
        else:
            side['cameras'][sid] = {'model': 'not-a-camera:' + s.sensor_type, 'params': []}
    if k.points3d is not None:
        arr = k.points3d.as_array()
        side['points'] = {'cols': int(arr.shape[1]) if arr.ndim == 2 else -1, 'rows': [[float(v) for v in row] for row in arr.tolist()]}
    if with_files:
        for part, getter in (('keypoints', kf.get_keypoints_fullpath), ('descriptors', kf.get_descriptors_fullpath)):
            coll = getattr(k, part)
            if coll is not None:
                side[part] = {}
                for t, v in coll.items():
                    files = {}
                    for im in sorted(v):
                        p = getter(t, root, im)
                        files[im] = open(p, 'rb').read().hex() if os.path.isfile(p) else None
                    side[part][t] = {'dtype': kgen.dtype_name(v.dtype) if not isinstance(v.dtype, np.dtype) else v.dtype.name,
                                     'dsize': int(v.dsize), 'files': files}
        if k.matches is not None:
            side['matches'] = {}
            for t, m in k.matches.items():
                lst = []
                for a, b in sorted(m):
                    p = kf.get_matches_fullpath((a, b), t, root)
                    if os.path.isfile(p):
                        raw = np.fromfile(p, dtype=np.float64)
                        rows = raw.reshape((-1, 3)).tolist() if raw.size % 3 == 0 else 'bad-size:%d' % raw.size
                    else:
                        rows = None
                    lst.append([a, b, rows])
                side['matches'][t] = lst
    return side


def read_osfm(osfm):
    out = {'files': walk_files(osfm), 'cameras': None, 'shots': None, 'point_keys': None, 'matches': {}}
    rp = os.path.join(osfm, 'reconstruction.json')
    if os.path.isfile(rp):
        rec = json.load(open(rp))[0]
        out['cameras'] = rec.get('cameras')
        out['shots'] = [[img, s.get('camera'), 'rotation' in s and 'translation' in s] for img, s in rec.get('shots', {}).items()]
        out['point_keys'] = list(rec['points'].keys()) if 'points' in rec else None
    mdir = os.path.join(osfm, 'matches')
    if os.path.isdir(mdir):
        for rel in walk_files(mdir):
            try:
                with gzip.open(os.path.join(mdir, rel), 'rb') as fh:
                    dct = pickle.load(fh)
                out['matches'][rel] = [[im2, np.asarray(a).tolist(), str(np.asarray(a).dtype.kind)] for im2, a in dct.items()]
            except Exception as e:   # unreadable pickle: reported as such
                out['matches'][rel] = 'unreadable:' + type(e).__name__
    return out


def run_real(case):
    k = json.dumps(case, sort_keys=True)
    if k in _cache:
        return _cache[k]
    _cache.clear()
    _cache[k] = _run_real(case)
    return _cache[k]


def _run_real(case):
    from kapture.converter.opensfm.export_opensfm import export_opensfm
    from kapture.converter.opensfm.import_opensfm import import_opensfm
    from kapture.io.records import TransferAction
    base = tempfile.mkdtemp(prefix='c15_')
    res = {'error': None, 'stage': None, 'src': None, 'osfm': None, 'back': None}
    try:
        src, osfm, back = (os.path.join(base, n) for n in ('src', 'osfm', 'back'))
        write_source(case, src)
        res['src'] = load_side(src, with_files=False)
        f = case['features']
        kt = f['kp_type'] if f else None
        dt = f['desc_type'] if f else None
        action = TransferAction[case['transfer']]
        try:
            export_opensfm(src, osfm, force_overwrite_existing=True, images_export_method=action,
                           keypoints_type=kt if case['explicit'] else None, descriptors_type=dt if case['explicit'] else None)
        except Exception as e:
            res['error'], res['stage'] = type(e).__name__ + ': ' + str(e)[:200], 'export'
            return res
        res['osfm'] = read_osfm(osfm)
        try:
            import_opensfm(osfm, back, force_overwrite_existing=True, images_import_method=action,
                           keypoints_type=kt or 'HessianAffine', descriptors_type=dt or 'HOG')
        except Exception as e:
            res['error'], res['stage'] = type(e).__name__ + ': ' + str(e)[:200], 'import'
            return res
        try:
            res['back'] = load_side(back, with_files=True)
            res['back']['files'] = walk_files(back)
        except Exception as e:
            res['error'], res['stage'] = type(e).__name__ + ': ' + str(e)[:200], 'reload'
        return res
    finally:
        shutil.rmtree(base, ignore_errors=True)


# ---------------------------------------------------------------------------------------------------------- comparisons

def same_rotation(q1, q2, tol=1e-9):
    """ two quaternions as rotations: q and -q are the same rotation """
    a, b = np.array(q1, dtype=float), np.array(q2, dtype=float)
    na, nb = np.linalg.norm(a), np.linalg.norm(b)
    if not (na > 0 and nb > 0):
        return False
    a, b = a / na, b / nb
    return bool(min(np.max(np.abs(a - b)), np.max(np.abs(a + b))) <= tol)


def same_pose(p1, p2):
    if p1 is None or p2 is None or p1['r'] is None or p2['r'] is None or p1['t'] is None or p2['t'] is None:
        return False
    return same_rotation(p1['r'], p2['r']) and list(p1['t']) == list(p2['t'])


def rat(x):
    fr = Fraction(float(x))
    return f'{fr.numerator}/{fr.denominator}'


def unrat(s):
    n, d = s.split('/')
    return Fraction(int(n), int(d))


def close(x, model_s, tol=Fraction(1, 10 ** 12)):
    a, b = Fraction(float(x)), unrat(model_s)
    return abs(a - b) <= tol * max(abs(b), Fraction(1, 10 ** 300))


def suffix_images(files, directory, suffix):
    pre = directory + '/'
    return sorted(f[len(pre):] for f in files if f.startswith(pre) and f.endswith(suffix))


def run_impl(case):
    r = run_real(case)
    if r['error']:
        return {'error': r['error'].split(':')[0], 'stage': r['stage']}
    o, b, s = r['osfm'], r['back'], r['src']
    out = {}
    out['cameras'] = {cid: {'exported': o['cameras'].get(cid), 'imported': (b['cameras'].get(cid) or {}).get('params'),
                            'model': (b['cameras'].get(cid) or {}).get('model')} for cid in sorted(case['cameras'])}
    out['camera_ids'] = [sorted(o['cameras']), sorted(b['cameras'])]
    out['point_keys'] = o['point_keys']
    # the order in which the source rows come back
    if b['points'] is None:
        out['order'] = None
    else:
        index = {tuple(row): i for i, row in enumerate((s['points'] or {'rows': []})['rows'])}
        out['order'] = [index.get(tuple(row), -1) for row in b['points']['rows']]
    out['shots'] = o['shots']
    # re-imported rows with the source pose each one carries: [i, camera, image, ts0, cam0]
    src_of_image = {img: [ts, cam] for ts, cam, img in s['records']}
    rows = []
    for ts, cam, img in sorted(b['records']):
        got = b['poses'].get(json.dumps([ts, cam]))
        token = None
        cand = [src_of_image[img]] if img in src_of_image else []
        cand += [[t0, c0] for t0, c0, _ in s['records'] if [t0, c0] not in cand]
        for t0, c0 in cand:
            if same_pose(got, s['poses'].get(json.dumps([t0, c0]))):
                token = [t0, c0]
                break
        rows.append([ts, cam, img] + (token or [None, None]))
    out['imported'] = rows
    out['feature_files'] = suffix_images(o['files'], 'features', '.npz') + \
        [f for f in o['files'] if f.startswith('features/') and not f.endswith('.npz')]
    kps = (b['keypoints'] or {})
    out['feature_names'] = sorted(im for v in kps.values() for im in v['files'])
    out['match_files'] = sorted([rel, sorted([e[0], e[1]] for e in lst) if isinstance(lst, list) else lst]
                                for rel, lst in o['matches'].items())
    out['match_kinds'] = sorted({e[2] for lst in o['matches'].values() if isinstance(lst, list) for e in lst if e[1]})
    out['matches_imported'] = sorted([a, b_, rows_] for lst in (b['matches'] or {}).values() for a, b_, rows_ in lst)
    return out


def to_model(case):
    r = run_real(case)
    reqs = []
    for cid in sorted(case['cameras']):
        cam = case['cameras'][cid]
        reqs.append({'op': 'camera', 'type': cam['model'],
                     'params': [rat(cam['w']), rat(cam['h'])] + [rat(F(cam[k])) for k in ('f', 'cx', 'cy', 'k1', 'k2')]})
    reqs.append({'op': 'points', 'n': len(case['points'] or [])})
    # the exporter walks flatten(records_camera) of the dataset it loads: that order is an input of the conversion
    records = (r['src'] or {}).get('records') or [list(x) for x in case['records']]
    posed = [[x[0], x[1]] for x, p in zip(case['records'], case['poses']) if p is not None]
    reqs.append({'op': 'shots', 'records': records, 'posed': posed})
    images = [x[2] for x in records]
    reqs.append({'op': 'matches', 'images': images,
                 'pairs': [[a, b, [[rat(F(v)) for v in row] for row in rows]] for a, b, rows in (case['matches'] or [])]})
    with_f = set((case['features'] or {}).get('rows', {}))
    reqs.append({'op': 'features', 'images': [im for im in images if im in with_f]})
    return reqs


def compare(case, io, mo):
    ncam = len(case['cameras'])
    cams, (pts, shots, matches, feats) = mo[:ncam], mo[ncam:]
    model_error = next((m['error'] for m in cams if 'error' in m), None) or shots.get('error')
    if 'error' in io:
        if io['error'] == 'ValueError' and io['stage'] == 'import' and case['points'] == [] and model_error is None:
            return None     # reported by the oracle under EMPTY_CLOUD_SIGNATURE (Points3d([]) in the importer), not twice
        if model_error is None:
            return f'implementation raises {io["error"]} during {io["stage"]}, the model returns a result'
        return None if io['error'] == model_error else f'errors differ: impl={io["error"]} model={model_error}'
    if model_error is not None:
        return f'the model reports {model_error}, the implementation returns a result'
    # cameras
    for cid, m in zip(sorted(case['cameras']), cams):
        e, imp = io['cameras'][cid]['exported'], io['cameras'][cid]['imported']
        me = m['exported']
        if e is None or imp is None:
            return f'camera {cid} missing: exported={e} imported={imp}'
        if e.get('projection_type') != 'perspective' or e.get('width') != me['width'] or e.get('height') != me['height']:
            return f'camera {cid} exported {e}, model {me}'
        for k in ('focal', 'k1', 'k2'):
            if not close(e.get(k), me[k]):
                return f'camera {cid} exported {k}={e.get(k)!r}, model {float(unrat(me[k]))!r}'
        if io['cameras'][cid]['model'] != 'RADIAL' or len(imp) != 7:
            return f'camera {cid} imported as {io["cameras"][cid]["model"]} {imp}'
        for i, (a, b) in enumerate(zip(imp, m['imported'])):
            if not close(a, b):
                return f'camera {cid} imported parameter {i}: impl {a!r} model {float(unrat(b))!r}'
    ids = sorted(case['cameras'])
    if io['camera_ids'] != [ids, ids]:
        return f'camera ids: exported/imported {io["camera_ids"]}, model {ids}'
    # points
    if case['points'] is None:
        if io['point_keys'] is not None or io['order'] is not None:
            return f'points without a source cloud: keys={io["point_keys"]} order={io["order"]}'
    else:
        if io['point_keys'] != pts['keys']:
            return f'point keys: impl {str(io["point_keys"])[:160]} model {str(pts["keys"])[:160]}'
        if (io['order'] or []) != pts['order']:
            return f'point order after import: impl {str(io["order"])[:160]} model {str(pts["order"])[:160]}'
    # shots
    if [list(x) for x in io['shots']] != shots['shots']:
        return f'exported shots: impl {str(io["shots"])[:300]} model {str(shots["shots"])[:300]}'
    if io['imported'] != shots['imported']:
        return f'imported shots: impl {str(io["imported"])[:300]} model {str(shots["imported"])[:300]}'
    # features
    mf = sorted(feats['files'])
    if io['feature_files'] != mf:
        return f'feature files: impl {io["feature_files"]} model {mf}'
    if io['feature_names'] != sorted(feats['names']):
        return f'images with keypoints after import: impl {io["feature_names"]} model {sorted(feats["names"])}'
    # matches
    if case['matches']:
        mfiles = sorted([p, sorted([im2, rows] for im2, rows in lst)] for p, lst in matches['files'])
        if io['match_files'] != mfiles:
            return f'match pickles: impl {str(io["match_files"])[:300]} model {str(mfiles)[:300]}'
        if io['match_kinds'] not in ([], ['i']):
            return f'match pickles hold {io["match_kinds"]} arrays, the model integers'
        mi = sorted([a, b, [[float(unrat(v)) for v in row] for row in rows]] for a, b, rows in matches['imported'])
        if io['matches_imported'] != mi:
            return f'imported matches: impl {str(io["matches_imported"])[:300]} model {str(mi)[:300]}'
    else:
        if io['matches_imported']:
            return f'matches appear without source matches: {str(io["matches_imported"])[:200]}'
        if any(lst for _, lst in io['match_files']):
            return f'match pickles without source matches: {str(io["match_files"])[:200]}'
    return None


# ---------------------------------------------------------------------------------------------------------- oracle

def fail(sig, detail):
    return {'signature': sig, 'detail': detail}


def oracle(case):
    """ the property on the implementation alone: dataset loaded before the export versus dataset loaded after the import """
    if case['variant'] in ('other_camera', 'unposed'):
        return None     # outside the statement (the model's error paths are checked by the correspondence)
    r = run_real(case)
    if r['error']:
        cls = r['error'].split(':')[0]
        if cls == 'ValueError' and r['stage'] == 'import' and case['points'] == []:
            return fail(EMPTY_CLOUD_SIGNATURE, 'a dataset whose points3d is present and empty is exported with "points": {} and '
                        'import_opensfm raises ' + r['error'] + ' (import_opensfm.py:354 kapture.Points3d([]))')
        return fail(f'raises:{r["stage"]}:{cls}', r['error'])
    s, b = r['src'], r['back']
    # shots: same image names bound to the same camera identifiers
    want = {img: cam for _, cam, img in s['records']}
    got = {}
    for _, cam, img in b['records']:
        if img in got:
            return fail('shots-binding', f'image {img!r} comes back twice')
        got[img] = cam
    if want != got:
        return fail('shots-binding', f'image -> camera before {sorted(want.items())[:4]} after {sorted(got.items())[:4]}')
    # poses
    src_pose = {img: s['poses'].get(json.dumps([ts, cam])) for ts, cam, img in s['records']}
    for ts, cam, img in b['records']:
        p0, p1 = src_pose[img], b['poses'].get(json.dumps([ts, cam]))
        if p0 is None:
            continue
        if p1 is None or p1['r'] is None or p1['t'] is None:
            return fail('pose-lost', f'image {img!r} comes back without pose')
        if not same_rotation(p0['r'], p1['r']):
            return fail('pose-rotation', f'image {img!r}: rotation {p0["r"]} came back as {p1["r"]}')
        if list(p0['t']) != list(p1['t']):
            return fail('pose-translation', f'image {img!r}: translation {p0["t"]} came back as {p1["t"]}')
    # cameras
    if sorted(s['cameras']) != sorted(b['cameras']):
        return fail('cameras-set', f'camera ids before {sorted(s["cameras"])} after {sorted(b["cameras"])}')
    for cid, c0 in s['cameras'].items():
        c1 = b['cameras'][cid]
        p = c0['params']
        k1 = p[5] if c0['model'] in ('SIMPLE_RADIAL', 'RADIAL') else 0.0
        k2 = p[6] if c0['model'] == 'RADIAL' else 0.0
        expect = [p[0], p[1], p[2], p[0] / 2, p[1] / 2, k1, k2] if case['variant'] == 'offcentre' else \
                 [p[0], p[1], p[2], p[3], p[4], k1, k2]
        if c1['model'] != 'RADIAL' or len(c1['params']) != 7:
            return fail('camera-model', f'camera {cid!r} came back as {c1}')
        for i, (a, e) in enumerate(zip(c1['params'], expect)):
            ok = abs(a - e) <= 1e-9 * abs(e) if i == 2 else a == e
            if not ok:
                return fail('camera-params', f'camera {cid!r} {c0} came back as {c1["params"]} (parameter {i})')
    # points
    if s['points'] is None:
        if b['points'] is not None and b['points']['rows']:
            return fail('points-invented', f'{len(b["points"]["rows"])} points appear')
    else:
        rows0 = s['points']['rows']
        rows1 = [] if b['points'] is None else b['points']['rows']
        if rows0 != rows1:
            if len(rows0) != len(rows1):
                return fail('points-count', f'{len(rows0)} points before, {len(rows1)} after')
            if sorted(rows0) == sorted(rows1):
                i = next(i for i, (x, y) in enumerate(zip(rows0, rows1)) if x != y)
                return fail('points-order', f'{len(rows0)} points come back in another order (first at index {i}: {rows0[i][:3]} '
                            f'became {rows1[i][:3]})')
            return fail('points-changed', 'coordinates or colours changed')
    # keypoints / descriptors of the type that travels
    f = case['features']
    ref = feature_arrays(case)
    for part, tkey, akey, dk, sk in (('keypoints', 'kp_type', 'kp', 'kdtype', 'kdsize'), ('descriptors', 'desc_type', 'desc', 'ddtype', 'ddsize')):
        coll = b[part] or {}
        if not f:
            if any(v['files'] for v in coll.values()):
                return fail(part + '-invented', f'{part} appear: {sorted(coll)}')
            continue
        v = coll.get(f[tkey])
        if v is None:
            return fail(part + '-lost', f'{part} of type {f[tkey]!r} are gone (types after import: {sorted(coll)})')
        if sorted(v['files']) != sorted(ref[akey]):
            return fail(part + '-images', f'images with {part} before {sorted(ref[akey])} after {sorted(v["files"])}')
        if v['dtype'] != f[dk] or v['dsize'] != f[sk]:
            return fail(part + '-type', f'{f[dk]} x {f[sk]} came back as {v["dtype"]} x {v["dsize"]}')
        for im, a in ref[akey].items():
            if v['files'][im] != a.tobytes().hex():
                return fail(part + '-data', f'{part} of {im!r} changed')
    # matches
    wantm = {(a, b_): match_array(rows) for a, b_, rows in (case['matches'] or [])}
    gotm = {}
    for lst in (b['matches'] or {}).values():
        for a, b_, rows in lst:
            gotm[(a, b_)] = rows
    if sorted(wantm) != sorted(gotm):
        return fail('matches-pairs', f'pairs before {sorted(wantm)[:4]} after {sorted(gotm)[:4]}')
    for pair, a in wantm.items():
        rows = gotm[pair]
        if not isinstance(rows, list):
            return fail('matches-file', f'pair {pair}: file {rows}')
        g = np.array(rows, dtype=np.float64).reshape((-1, 3))
        if g.shape != a.shape or not np.array_equal(g[:, 0:2], a[:, 0:2]):
            return fail('matches-indices', f'pair {pair}: index pairs {a[:, 0:2].tolist()[:4]} came back as {g[:, 0:2].tolist()[:4]}')
    return None


# ---------------------------------------------------------------------------------------------------------- shrinking

def shrink(case, still_fails):
    def attempt(c):
        try:
            return still_fails(c)
        except Exception:
            return False
    cur = json.loads(json.dumps(case))
    for key, val in (('matches', None), ('features', None), ('transfer', 'skip'), ('explicit', False)):
        if cur.get(key) != val:
            c = json.loads(json.dumps(cur))
            c[key] = val
            if key == 'features':
                c['matches'] = None
            if attempt(c):
                cur = c
    if cur['points']:
        for n in (0, 1, 2, 11, 12, 101):
            if n < len(cur['points']):
                c = json.loads(json.dumps(cur))
                c['points'] = c['points'][:n]
                if attempt(c):
                    cur = c
                    break
    if cur['points'] is not None:
        c = json.loads(json.dumps(cur))
        c['points'] = None
        if attempt(c):
            cur = c
    while len(cur['records']) > 1:
        c = json.loads(json.dumps(cur))
        gone = c['records'].pop()
        c['poses'].pop()
        if c['features']:
            c['features']['rows'].pop(gone[2], None)
            if not c['features']['rows']:
                c['features'], c['matches'] = None, None
        if c['matches']:
            c['matches'] = [m for m in c['matches'] if gone[2] not in (m[0], m[1])] or None
        if not attempt(c):
            break
        cur = c
    used = {r[1] for r in cur['records']}
    if len(used) < len(cur['cameras']):
        c = json.loads(json.dumps(cur))
        c['cameras'] = {k: v for k, v in c['cameras'].items() if k in used}
        if attempt(c):
            cur = c
    return cur
