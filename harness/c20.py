"""
C20 — upgrading a 1.0 dataset to 1.1 preserves all of its content.
Correspondence: 1.0 directories written by the harness (any subset of parts, version lines absent where 1.0 allowed it, element
types under several spellings, nested image folders including one NAMED LIKE THE TYPE, side json files) are upgraded by the real
in-place route, the real copy route (each transfer strategy) and the downloader's automatic route; the resulting trees are
compared path by path and content by content with Model/C20.lean (upgradeInplace / upgradeCopy).
Oracle (implementation only): the routes agree on the dataset part; every 1.0 data file is found byte-identical under its type
folder; tables are unchanged after the version line; the result loads completely with kapture_from_dir to the expected 1.1
dataset (observations labelled with the keypoints type).
"""
import hashlib
import json
import os
import shutil
import sys
import tempfile

import kgen

ID = 'C20'
TITLE = 'Upgrading a 1.0 dataset to 1.1 preserves all of its content'
GEN = ['Headers', 'DtypeNames']
RULE = ('each case = a generated dataset (one type per feature kind) written as a 1.0 directory by the harness: version lines 1.0 '
        '(points3d with or without), element type spelled float32 / np.float32 / numpy.float32 / double / float / uint8 ..., image '
        'folders nested and, with probability 0.4, one named like the keypoints type holding an image of the same name (half of those also hold the same deeper sub-paths inside and outside that folder), explicit or '
        'defaulted type names, side json files; routes: inplace, copy x {skip, copy, link_absolute, link_relative}, automatic. '
        'distinct non-trivial = distinct cases with at least one feature folder')
ASSUMPTIONS = [
    'shutil.move / shutil.copy / os.removedirs are observed through the resulting trees, not modelled beyond move = erase + set',
    '1.0 files carry a version line except points3d.txt (the copy route asserts it); the in-place route also accepts files without',
    'the records_data folder is outside the model (copied / linked by the C09 transfer helpers)',
]
TRUSTED = ['kgen.py', 'the harness\'s own 1.0 writer']
_cache = {}
DT_SPELL = {'float32': ['float32', 'np.float32', 'numpy.float32', 'single'], 'float64': ['float64', 'double', 'np.float64', 'float'],
            'uint8': ['uint8', 'np.uint8'], 'int32': ['int32', 'numpy.int32'], 'float16': ['float16', 'half']}


def gen_case(rng):
    opts = kgen.Opts(p_part=rng.choice([0.6, 0.9]), id_pool=3, fancy_ids=False, ts_style='small', max_rows=4, image_pool=4,
                     partial_poses=True, feature_types=['sift'], dtypes=['float32', 'float64', 'uint8', 'int32', 'float16'],
                     force_parts={'records_camera'} | ({'keypoints'} if rng.random() < 0.6 else set()))
    d = kgen.gen_dataset(rng, opts)
    # one type per kind
    for kind in ('keypoints', 'descriptors', 'global_features'):
        if d[kind]:
            t = next(iter(d[kind]))
            d[kind] = {t: d[kind][t]}
    if d['global_features']:
        t = next(iter(d['global_features']))
        d['global_features'] = {'apgem': d['global_features'][t]}
    if d['descriptors']:
        d['descriptors']['sift']['keypoints_type'] = 'sift'
    if d['matches']:
        d['matches'] = {'sift': d['matches'].get('sift', next(iter(d['matches'].values())))}
    clash = rng.random() < 0.4 and bool(d['keypoints'])
    if clash and rng.random() < 0.5:
        clash = 'deep'
    explicit = rng.random() < 0.4
    params = {'kp': 'kp_new' if explicit and rng.random() < 0.7 else None, 'desc': 'desc_new' if explicit and rng.random() < 0.5 else None,
              'gf': 'gf_new' if explicit and rng.random() < 0.5 else None, 'descMetric': rng.choice(['L2', 'L1']),
              'gfMetric': rng.choice(['L2', 'dot'])}
    route = rng.choice(['copy:skip', 'copy:copy', 'copy:link_absolute', 'copy:link_relative', 'auto'])
    if route == 'auto':
        params = {'kp': None, 'desc': None, 'gf': None, 'descMetric': 'L2', 'gfMetric': 'L2'}
    return {'d': d, 'params': params, 'route': route, 'clash': clash, 'points_version': rng.random() < 0.5,
            'spell': rng.randrange(4), 'json': rng.random() < 0.4, 'hdr': rng.choice([0, 0, 1, 2, 3, 4, 5, 5, 6, 7])}


def cases(rng, tier):
    n = 80 if tier == 'quick' else 1500
    return [gen_case(rng) for _ in range(n)]


def tree_10(case, base):
    """ writes the 1.0 directory; returns (root, {rel: bytes}) of the data files """
    from kapture.io.csv import kapture_to_dir
    d = case['d']
    tmp = os.path.join(base, 'as11')
    root = os.path.join(base, 'v10')
    kapture_to_dir(tmp, kgen.build(d))
    os.makedirs(root)
    blobs = {}
    for dp, _, fns in os.walk(tmp):
        for fn in fns:
            rel = os.path.relpath(os.path.join(dp, fn), tmp)
            text = open(os.path.join(dp, fn)).read()
            if rel.startswith('reconstruction/') and rel.count('/') > 1:
                continue    # descriptor files: rewritten below in the 1.0 layout
            lines = text.split('\n')
            if rel == 'reconstruction/observations.txt':
                out = ['# kapture format: 1.0', '# point3d_id, [image_path, feature_id]*']
                for ln in lines[2:]:
                    if ln.strip():
                        f = [x.strip() for x in ln.split(',')]
                        out.append(', '.join([f[0]] + f[2:]))
                lines = out + ['']
            elif rel == 'reconstruction/points3d.txt' and not case['points_version']:
                lines = lines[1:]
            else:
                # the version line as the header pattern accepts it (optional blanks after the colon, trailing blanks), and
                # with or without the '# columns' comment line between it and the first row
                lines[0] = ['# kapture format: 1.0', '# kapture format:1.0', '# kapture format:   1.0', '# kapture format: 1.0  '][
                    case.get('hdr', 0) % 4]
                if case.get('hdr', 0) >= 4 and len(lines) > 1 and lines[1].startswith('#'):
                    del lines[1]
            os.makedirs(os.path.dirname(os.path.join(root, rel)), exist_ok=True)
            with open(os.path.join(root, rel), 'w') as f:
                f.write('\n'.join(lines))

    def put(rel, data):
        p = os.path.join(root, rel)
        os.makedirs(os.path.dirname(p), exist_ok=True)
        with open(p, 'wb') as f:
            f.write(data)
        blobs[rel] = data
    for kind, ext, cfg in (('keypoints', '.kpt', 'keypoints.txt'), ('descriptors', '.desc', 'descriptors.txt'),
                           ('global_features', '.gfeat', 'global_features.txt')):
        if not d[kind]:
            continue
        ty, v = next(iter(d[kind].items()))
        spell = DT_SPELL[v['dtype']][case['spell'] % len(DT_SPELL[v['dtype']])]
        os.makedirs(os.path.join(root, 'reconstruction', kind), exist_ok=True)
        with open(os.path.join(root, 'reconstruction', kind, cfg), 'w') as f:
            f.write(f'# kapture format: 1.0\n# name, dtype, dsize\n{ty}, {spell}, {v["dsize"]}\n')
        names = list(v['images'])
        for nme in names:
            put(f'reconstruction/{kind}/{nme}{ext}', repr(('data', kind, nme)).encode())
        if case['clash'] and names:
            # an image folder named like the type (the default type name is `ty`; an explicit one is params[...])
            tname = case['params'][{'keypoints': 'kp', 'descriptors': 'desc', 'global_features': 'gf'}[kind]] or ty
            base_name = names[0].split('/')[-1]
            put(f'reconstruction/{kind}/{base_name}{ext}', repr(('top', kind, base_name)).encode())
            put(f'reconstruction/{kind}/{tname}/{base_name}{ext}', repr(('clash', kind, base_name)).encode())
            if case['clash'] == 'deep':
                # the same sub-path one or two folders down, inside and outside the folder named like the type, with
                # folder names sorting before and after the type name
                for sub in ('aaa', 'zzz/deep', '~q'):
                    put(f'reconstruction/{kind}/{sub}/{base_name}{ext}', repr(('out', kind, sub, base_name)).encode())
                    put(f'reconstruction/{kind}/{tname}/{sub}/{base_name}{ext}', repr(('in', kind, sub, base_name)).encode())
        if case['json'] and kind != 'descriptors':
            jn = 'extract_local_features.json' if kind == 'keypoints' else 'extract_global_features.json'
            with open(os.path.join(root, 'reconstruction', kind, jn), 'w') as f:
                f.write('{"k": 1}')
    if d['matches']:
        for a, b in next(iter(d['matches'].values())):
            put(f'reconstruction/matches/{a}.overlapping/{b}.matches', repr(('match', a, b)).encode())
        if case['json']:
            with open(os.path.join(root, 'reconstruction', 'matches', 'run_matching.json'), 'w') as f:
                f.write('{"m": 2}')
    for part in ('records_camera', 'records_depth', 'records_lidar'):
        for ts, dev, p in (d[part] or []):
            put(f'sensors/records_data/{p}', repr(('rec', p)).encode())
    shutil.rmtree(tmp)
    return root, blobs


def read_tree(root, skip_records=False):
    out = {}
    for dp, _, fns in os.walk(root, followlinks=True):
        for fn in fns:
            full = os.path.join(dp, fn)
            rel = os.path.relpath(full, root)
            if skip_records and rel.startswith('sensors/records_data/'):
                continue
            data = open(full, 'rb').read()
            if rel.endswith('.txt') or rel.endswith('.json'):
                out[rel] = ['t', data.decode('utf-8').split('\n')]
            else:
                out[rel] = ['b', hashlib.sha256(data).hexdigest()[:12]]
    return out


def run_real(case):
    k = json.dumps(case, sort_keys=True)
    if k in _cache:
        return _cache[k]
    _cache.clear()
    from kapture.utils.upgrade import upgrade_1_0_to_1_1_inplace
    from kapture.io.binary import TransferAction
    from kapture.io.csv import kapture_from_dir
    tools = os.path.join(os.environ.get('KAPTURE_REPO', '/repo'), 'tools')
    if tools not in sys.path:
        sys.path.insert(0, tools)
    import kapture_upgrade_1_0_to_1_1 as up
    base = tempfile.mkdtemp(prefix='c20_')
    res = {}
    try:
        root, blobs = tree_10(case, base)
        res['before'] = read_tree(root)
        res['blobs'] = {rel: hashlib.sha256(b).hexdigest()[:12] for rel, b in blobs.items()}
        p = case['params']
        a = os.path.join(base, 'inplace')
        shutil.copytree(root, a)
        try:
            if case['route'] == 'auto':
                import kapture_download_dataset as tool
                idir = tool.InstallDir(os.path.join(base, 'index.yaml'), os.path.join(base, 'install'))
                os.makedirs(os.path.join(base, 'install'))
                shutil.move(a, os.path.join(base, 'install', 'ds'))
                a = os.path.join(base, 'install', 'ds')
                ds = tool.Dataset('ds', idir, 'http://x.invalid/ds.tar.gz', '0' * 64)
                ds.mark_as_installed(True)
                ok = ds.upgrade()
                res['auto_ok'] = ok
            else:
                upgrade_1_0_to_1_1_inplace(a, p['kp'], p['desc'], p['gf'], p['descMetric'], p['gfMetric'])
            res['inplace'] = read_tree(a)
            res['inplace_error'] = None
        except Exception as e:
            res['inplace'], res['inplace_error'] = None, type(e).__name__
        b = os.path.join(base, 'out')
        try:
            strategy = TransferAction[case['route'].split(':')[1]] if case['route'].startswith('copy:') else TransferAction.skip
            up.upgrade_1_0_to_1_1(root, b, p['kp'], p['desc'], p['gf'], p['descMetric'], p['gfMetric'], strategy, True)
            res['copy'] = read_tree(b)
            res['copy_error'] = None
        except Exception as e:
            res['copy'], res['copy_error'] = None, type(e).__name__
        res['source_after'] = read_tree(root)
        for name, dirp in (('loaded_inplace', a), ('loaded_copy', b)):
            try:
                res[name] = kgen.describe(kapture_from_dir(dirp)) if res['inplace' if 'inplace' in name else 'copy'] is not None else None
            except Exception as e:
                res[name] = 'error:' + type(e).__name__ + ':' + str(e)[:100]
    finally:
        shutil.rmtree(base, ignore_errors=True)
    _cache[k] = res
    return res


def run_impl(case):
    r = run_real(case)
    return {'inplace': r['inplace_error'] or r['inplace'], 'copy': r['copy_error'] or r['copy']}


def digest_ids(case):
    r = run_real(case)
    ids = {}
    for rel, c in r['before'].items():
        if c[0] == 'b':
            ids.setdefault(c[1], len(ids) + 1)
    return ids


def to_model(case):
    r = run_real(case)
    ids = digest_ids(case)
    tree = [[rel, c if c[0] == 't' else ['b', ids[c[1]]]] for rel, c in sorted(r['before'].items())]
    return [{'route': 'inplace', 'params': case['params'], 'tree': tree},
            {'route': 'copy', 'params': case['params'], 'tree': [e for e in tree if not e[0].startswith('sensors/records_data/')]}]


def compare(case, io_, mo):
    ids = digest_ids(case)
    for name, m, skip in (('inplace', mo[0], False), ('copy', mo[1], True)):
        got = io_[name]
        if isinstance(got, str) or 'error' in m:
            if not (isinstance(got, str) and m.get('error') == got):
                return f'{name}: impl {got if isinstance(got, str) else "ok"} model {m.get("error", "ok")}'
            continue
        g = {rel: (c if c[0] == 't' else ['b', ids.get(c[1], c[1])]) for rel, c in got.items()
             if not (skip and rel.startswith('sensors/records_data/'))}
        mm = {e[0]: e[1] for e in m['tree']}
        if sorted(g) != sorted(mm):
            return f'{name}: files impl-only {sorted(set(g) - set(mm))[:4]} model-only {sorted(set(mm) - set(g))[:4]}'
        for rel in g:
            a, b = g[rel], mm[rel]
            if a[0] == 't':
                # trailing newline conventions: compare line lists ignoring one trailing empty string
                la = a[1][:-1] if a[1] and a[1][-1] == '' else a[1]
                lb = b[1][:-1] if b[1] and b[1][-1] == '' else b[1]
                if la != lb:
                    return f'{name}: {rel}: impl {la[:4]} model {lb[:4]}'
            elif a != b:
                return f'{name}: {rel}: blob impl {a} model {b}'
    return None


def expected_11(case):
    d = json.loads(json.dumps(case['d']))
    p = case['params']
    kt = None
    if d['keypoints']:
        ty, v = next(iter(d['keypoints'].items()))
        kt = p['kp'] or ty
    return d, kt


def oracle(case):
    r = run_real(case)
    for name in ('inplace', 'copy'):
        if r[name + '_error']:
            return {'signature': f'{name}-raises:' + r[name + '_error'], 'detail': f'route {case["route"]} params {case["params"]}'}
    a = {k: v for k, v in r['inplace'].items() if not k.startswith('sensors/records_data/')}
    b = {k: v for k, v in r['copy'].items() if not k.startswith('sensors/records_data/') and not k.endswith('.json')}
    a_nojson = {k: v for k, v in a.items() if not k.endswith('.json')}
    if a_nojson != b:
        diff = sorted(set(a_nojson) ^ set(b)) or [k for k in b if a_nojson.get(k) != b[k]]
        return {'signature': 'routes-differ', 'detail': f'in-place and copy results differ on {diff[:4]}'}
    if r['source_after'] != r['before']:
        return {'signature': 'copy-route-touched-source', 'detail': ''}
    if case['route'].startswith('copy:') and case['route'] != 'copy:skip':
        # each image transfer strategy: every record data file arrives under its own name with its own bytes
        src = {k: v for k, v in r['before'].items() if k.startswith('sensors/records_data/')}
        dst = {k: v for k, v in r['copy'].items() if k.startswith('sensors/records_data/')}
        if src != dst:
            bad = sorted(set(src) ^ set(dst)) or [k for k in src if src[k] != dst[k]]
            return {'signature': 'record-files-not-transferred', 'detail': f'{case["route"]}: {bad[:4]}'}
    # every data file byte-identical under its type
    p = case['params']
    d = case['d']
    tnames = {'keypoints': p['kp'] or (next(iter(d['keypoints'])) if d['keypoints'] else None),
              'descriptors': p['desc'] or (next(iter(d['descriptors'])) if d['descriptors'] else None),
              'global_features': p['gf'] or (next(iter(d['global_features'])) if d['global_features'] else None)}
    tnames['matches'] = tnames['keypoints']
    for rel, dig in r['blobs'].items():
        parts = rel.split('/')
        if parts[0] == 'reconstruction':
            kind = parts[1]
            dst = '/'.join(parts[:2] + [tnames[kind]] + parts[2:])
            for name in ('inplace', 'copy'):
                got = r[name].get(dst)
                if got != ['b', dig]:
                    return {'signature': 'data-file-lost', 'detail': f'{name}: {rel} should be at {dst} with its own bytes, found {got}'}
    # loads completely
    for name in ('loaded_inplace', 'loaded_copy'):
        L = r[name]
        if isinstance(L, str):
            return {'signature': 'upgraded-does-not-load', 'detail': f'{name}: {L}'}
        kt = tnames['keypoints']
        exp_obs = None if d['observations'] is None else sorted([i, kt, img, f] for i, _, img, f in d['observations'])
        if d['keypoints'] and d['points3d'] is not None and exp_obs:
            # observations only load for images that have keypoints files of that type
            have = set(next(iter(d['keypoints'].values()))['images'])
            exp_obs = [o for o in exp_obs if o[2] in have]
            if sorted(L['observations'] or []) != exp_obs:
                return {'signature': 'observations-not-relabelled', 'detail': f'{name}: {str(L["observations"])[:150]} expected {str(exp_obs)[:150]}'}
        for part in ('sensors', 'rigs', 'trajectories', 'records_camera', 'records_depth', 'records_lidar', 'records_wifi',
                     'records_bluetooth', 'records_accelerometer', 'records_gyroscope', 'records_magnetic'):
            want = kgen.describe(kgen.build(d))[part]
            if L[part] != want:
                return {'signature': 'content-changed:' + part, 'detail': f'{name}: {str(want)[:120]} -> {str(L[part])[:120]}'}
        for kind in ('keypoints', 'descriptors', 'global_features'):
            if d[kind]:
                if not L[kind] or list(L[kind]) != [tnames[kind]]:
                    return {'signature': 'feature-type', 'detail': f'{name}: {kind} loaded as {list(L[kind] or {})} expected [{tnames[kind]}]'}
                want = set(next(iter(d[kind].values()))['images'])
                if not want <= set(L[kind][tnames[kind]]['images']):
                    return {'signature': 'feature-images-lost', 'detail': f'{name}: {kind}'}
    return None


def nontrivial(case):
    if not any(case['d'][k] for k in ('keypoints', 'descriptors', 'global_features', 'matches')):
        return None
    return json.dumps(case, sort_keys=True)


def distribution(cases_):
    d = {}
    for c in cases_:
        d['route:' + c['route']] = d.get('route:' + c['route'], 0) + 1
        if c['clash']:
            d['clash'] = d.get('clash', 0) + 1
        for k in ('keypoints', 'descriptors', 'global_features', 'matches', 'observations', 'points3d'):
            if c['d'][k]:
                d['has:' + k] = d.get('has:' + k, 0) + 1
    return d
