"""
kgen.py — shared generator of kapture datasets for the correspondence harnesses.

A dataset is first a plain JSON-able DESCRIPTION (so that cases are replayable and can be shipped to the Lean drivers),
then materialised as a kapture.Kapture object (`build`) and, when files are needed, as feature/match/record files on disk
(`write_data_files`).  `describe` turns an in-memory kapture.Kapture back into a canonical description.

Floats are carried as float.hex() strings.  Identifiers are drawn from small pools so that several datasets overlap.
"""
import os
import struct

import numpy as np

PART_NAMES = ['sensors', 'rigs', 'trajectories', 'records_camera', 'records_depth', 'records_lidar', 'records_wifi',
              'records_bluetooth', 'records_gnss', 'records_accelerometer', 'records_gyroscope', 'records_magnetic',
              'keypoints', 'descriptors', 'global_features', 'matches', 'points3d', 'observations']
RECORD_FILE_KINDS = ['records_camera', 'records_depth', 'records_lidar']
RECORD_XYZ_KINDS = ['records_accelerometer', 'records_gyroscope', 'records_magnetic']

SENSOR_KIND_FOR_PART = {
    'records_camera': 'camera', 'records_depth': 'depth', 'records_lidar': 'lidar', 'records_wifi': 'wifi',
    'records_bluetooth': 'bluetooth', 'records_gnss': 'gnss', 'records_accelerometer': 'accelerometer',
    'records_gyroscope': 'gyroscope', 'records_magnetic': 'magnetic'}

CAMERA_MODELS = {'SIMPLE_PINHOLE': 5, 'PINHOLE': 6, 'SIMPLE_RADIAL': 6, 'RADIAL': 7, 'OPENCV': 10, 'UNKNOWN_CAMERA': 2,
                 'FOV': 7, 'OPENCV_FISHEYE': 10}

DTYPES = ['float32', 'float64', 'uint8', 'int32', 'float16', 'int8', 'uint16', 'int64']
# the last five hold a character that str.splitlines() treats as a line boundary but a text file does not (form feed, vertical
# tab, file separator, NEL, LINE SEPARATOR), INSIDE the identifier: a legal, comma-free, newline-free, trimmed identifier
ID_TAILS = ['', ' x', 'é', '-0', '_b.c', ' with space', '\x0cff', '\x0bvt', '\x1cfs', '\x85nel', '\u2028ls', 'e\u0301', '\u212b']


def H(x):
    return float(x).hex()


def F(h):
    return float.fromhex(h)


SPECIAL_FLOATS = [0.0, -0.0, 1.0, -1.0, 5e-324, 2.2250738585072014e-308, 1e300, -1e300, 1e-300, 0.1, 1 / 3, 123456789.123456789,
                  1.7976931348623157e308, 3.141592653589793, 2.0 ** 53 + 2, 1e16, 1e22, 1e23, 5e-5, 0.30000000000000004]


def gen_float(rng, specials=True):
    x = rng.random()
    if specials and x < 0.35:
        return rng.choice(SPECIAL_FLOATS)
    if x < 0.5:
        return float(rng.randint(-1000, 1000))
    if x < 0.8:
        return rng.uniform(-10, 10)
    return struct.unpack('<d', struct.pack('<Q', rng.getrandbits(64) & 0x7FEFFFFFFFFFFFFF | (rng.getrandbits(1) << 63)))[0]


def gen_pose(rng, partial=True):
    x = rng.random()
    q = [rng.gauss(0, 1) for _ in range(4)]
    n = sum(v * v for v in q) ** 0.5 or 1.0
    q = [v / n for v in q]
    if rng.random() < 0.2:
        q = [1.0, 0.0, 0.0, 0.0]
    t = [gen_float(rng, specials=rng.random() < 0.3) for _ in range(3)]
    t = [v if abs(v) < 1e9 and (v == 0 or abs(v) > 1e-9) else float(rng.randint(-5, 5)) for v in t]
    r_h, t_h = [H(v) for v in q], [H(v) for v in t]
    if partial and x < 0.08:
        r_h = None
    elif partial and x < 0.16:
        t_h = None
    return {'r': r_h, 't': t_h}


def zero_sign_twin(rng, pose):
    def flip(hs):
        if hs is None:
            return None
        hs = list(hs)
        zeros = [i for i, h in enumerate(hs) if F(h) == 0.0]
        if not zeros:
            # make one: an axis-aligned translation / a quaternion with a zero component keeps the pose plausible
            i = rng.randrange(1, len(hs)) if len(hs) == 4 else rng.randrange(len(hs))
            hs[i] = H(0.0)
            zeros = [i]
        i = rng.choice(zeros)
        hs[i] = H(-F(hs[i])) if rng.random() < 0.8 else hs[i]
        return hs
    return {'r': flip(pose['r']), 't': flip(pose['t'])}


def gen_timestamp(rng, style):
    if style == 'small':
        return rng.randint(0, 30)
    if style == 'epoch':
        return 1600000000000 + rng.randint(0, 50)
    if style == 'wide':
        k = rng.choice([1, 3, 10, 13, 16, 19])
        return rng.randrange(10 ** (k - 1), min(10 ** k, 2 ** 63 - 1)) if k > 1 else rng.randint(0, 9)
    return rng.randint(-50, 50)


class Opts:
    def __init__(self, **kw):
        self.p_part = 0.6            # probability that an optional part is present
        self.id_pool = 4             # ids are sensorK for K < id_pool (overlap between datasets)
        self.fancy_ids = True        # spaces / unicode / dots in identifiers
        self.ts_style = None
        self.max_rows = 5
        self.partial_poses = True
        self.nested_rigs = False
        self.min_kp_types = 1        # at least that many keypoints types when keypoints are present
        self.odd_paths = False       # record paths not in normal form (./x, a//b, a/./b, a/x/../b, a\\b) for lidar / depth
        self.histories = False       # some datasets are built through a construction history (see build)
        self.feature_types = ['sift', 'r2d2', 'd2_net']
        self.image_pool = 6
        self.cols = None             # points3d columns: 3, 6 or None (random)
        self.dtypes = DTYPES
        self.force_parts = None      # set of part names forced present
        self.forbid_parts = set()
        self.special_floats = True
        self.dtype_instances = 0.0   # probability that a feature type is declared with a numpy dtype INSTANCE (np.dtype('float32')) instead of the class
        self.unordered_pairs = 0.0   # probability that a match pair is stored against the convention image1 < image2
        self.__dict__.update(kw)


def ident(rng, base, k, opts):
    tail = rng.choice(ID_TAILS) if opts.fancy_ids and rng.random() < 0.25 else ''
    return f'{base}{k}{tail}'


def gen_dataset(rng, opts=None):
    """ returns a description: dict part -> content (None = absent) """
    o = opts or Opts()
    style = o.ts_style or rng.choice(['small', 'epoch', 'wide', 'signed'])
    d = {p: None for p in PART_NAMES}
    if o.histories and rng.random() < 0.35:
        d['_history'] = 'cached-then-dict-api'

    def present(p):
        if p in o.forbid_parts:
            return False
        if o.force_parts is not None and p in o.force_parts:
            return True
        return rng.random() < o.p_part

    # sensors: always present (a dataset without sensors cannot be loaded); may be empty-ish
    sensors = {}
    kinds = ['camera', 'camera', 'depth', 'lidar', 'wifi', 'bluetooth', 'gnss', 'accelerometer', 'gyroscope', 'magnetic',
             'odometry']
    pool = list(range(o.id_pool))
    rng.shuffle(pool)
    nsens = rng.randint(1, o.id_pool)
    names_by_kind = {}
    for k in pool[:nsens]:
        kind = rng.choice(kinds)
        sid = ident(rng, kind[:3] + '_', k, o)
        if sid in sensors:
            continue
        if kind in ('camera', 'depth'):
            model = rng.choice(list(CAMERA_MODELS))
            params = [model] + cam_params(rng, model)
        elif kind == 'gnss':
            params = ['EPSG:4326'] if rng.random() < 0.7 else []
        elif kind == 'lidar':
            params = rng.choice([[], ['velodyne'], ['a', 'b c']])
        else:
            params = rng.choice([[], ['x'], ['1.5', 'foo']])
        name = rng.choice([None, '', 'my ' + kind, sid])
        sensors[sid] = {'type': kind, 'params': params, 'name': name}
        names_by_kind.setdefault(kind, []).append(sid)
    # make sure the frequently needed kinds exist when their records are forced
    for part, kind in SENSOR_KIND_FOR_PART.items():
        if o.force_parts and part in o.force_parts and kind not in names_by_kind:
            sid = f'{kind[:3]}_{o.id_pool}'
            if kind in ('camera', 'depth'):
                params = ['SIMPLE_PINHOLE'] + cam_params(rng, 'SIMPLE_PINHOLE')
            else:
                params = []
            sensors[sid] = {'type': kind, 'params': params, 'name': None}
            names_by_kind[kind] = [sid]
    d['sensors'] = sensors
    sensor_ids = list(sensors)

    # rigs
    rig_ids = []
    if present('rigs') and sensor_ids:
        rigs = {}
        nr = rng.randint(2, 4) if o.nested_rigs else rng.randint(1, 3)
        free = list(sensor_ids)
        rng.shuffle(free)
        for r in range(nr):
            rid = ident(rng, 'rig', r, o)
            nest = o.nested_rigs and rig_ids and rng.random() < 0.8
            if rid in sensors or rid in rigs or not (free or nest):
                continue
            members = {}
            for _ in range(rng.randint(0 if nest else 1, 3)):
                if free:
                    members[free.pop()] = gen_pose(rng, partial=False)
            if nest:
                members[rig_ids[-1]] = gen_pose(rng, partial=False)
            if members:
                rigs[rid] = members
                rig_ids.append(rid)
        if o.nested_rigs and len(rigs) > 1 and rng.random() < 0.6:
            # any insertion order: an outer rig may be declared (and written) before the rig it contains
            order = list(rigs)
            rng.shuffle(order)
            rigs = {rid: dict(sorted(rigs[rid].items(), key=lambda kv: rng.random())) for rid in order}
        d['rigs'] = rigs or None
        if not rigs:
            rig_ids = []

    # trajectories
    if present('trajectories'):
        rows = {}
        devs = sensor_ids + rig_ids
        for _ in range(rng.randint(0, o.max_rows)):
            ts = gen_timestamp(rng, style)
            dev = rng.choice(devs)
            if rows and rng.random() < 0.2:
                # a pose that is an earlier one up to the SIGN OF A ZERO (identity quaternions and axis-aligned translations hold
                # zeros): numerically equal, not bit-identical — whatever a reader shares between "equal" poses shows here
                rows[(ts, dev)] = zero_sign_twin(rng, rng.choice(list(rows.values())))
            else:
                rows[(ts, dev)] = gen_pose(rng, partial=o.partial_poses)
        d['trajectories'] = [[ts, dev, p] for (ts, dev), p in rows.items()]

    images = []
    for part in RECORD_FILE_KINDS:
        kind = SENSOR_KIND_FOR_PART[part]
        if present(part) and names_by_kind.get(kind):
            rows = {}
            for _ in range(rng.randint(0, o.max_rows)):
                ts = gen_timestamp(rng, style)
                dev = rng.choice(names_by_kind[kind])
                k = rng.randrange(o.image_pool)
                ext = {'records_camera': '.jpg', 'records_depth': '.depth', 'records_lidar': '.pcd'}[part]
                sub = rng.choice(['', 'seq a/', 'cam0/sub.dir/', 'ünï/'])
                name = f'{sub}img{k:02d}{ext}'
                if o.odd_paths and part != 'records_camera' and rng.random() < 0.35:
                    # legal relative paths that are NOT in normal form: the text of the file is the value (only for records
                    # that carry no features, whose names the library lists from directories in normal form)
                    sub, tag = rng.choice([('./', 'dot'), ('odd//', 'dbl'), ('odd/./', 'cur'), ('odd/x/../', 'up'), ('odd\\', 'bsl')])
                    name = f'{sub}img{k:02d}_{tag}{ext}'
                rows[(ts, dev)] = name
            d[part] = [[ts, dev, p] for (ts, dev), p in rows.items()]
            if part == 'records_camera':
                images = sorted({p for p in rows.values()})
    if present('records_wifi') and names_by_kind.get('wifi'):
        rows = {}
        for _ in range(rng.randint(0, o.max_rows)):
            ts, dev = gen_timestamp(rng, style), rng.choice(names_by_kind['wifi'])
            sig = {}
            for _ in range(rng.randint(1, 3)):
                bssid = 'BA:BE:CA:FE:00:%02d' % rng.randrange(4)
                sig[bssid] = [rng.randint(2400, 5900), H(gen_float(rng, o.special_floats)), rng.choice(['', 'net one', 'ñ']),
                              rng.randint(0, 10 ** 9), rng.randint(0, 10 ** 9)]
            rows[(ts, dev)] = sig
        d['records_wifi'] = [[ts, dev, s] for (ts, dev), s in rows.items()]
    if present('records_bluetooth') and names_by_kind.get('bluetooth'):
        rows = {}
        for _ in range(rng.randint(0, o.max_rows)):
            ts, dev = gen_timestamp(rng, style), rng.choice(names_by_kind['bluetooth'])
            sig = {}
            for _ in range(rng.randint(1, 3)):
                sig['AA:BB:%02d' % rng.randrange(4)] = [H(gen_float(rng, o.special_floats)), rng.choice(['', 'bt dev', 'ß'])]
            rows[(ts, dev)] = sig
        d['records_bluetooth'] = [[ts, dev, s] for (ts, dev), s in rows.items()]
    if present('records_gnss') and names_by_kind.get('gnss'):
        rows = {}
        for _ in range(rng.randint(0, o.max_rows)):
            ts, dev = gen_timestamp(rng, style), rng.choice(names_by_kind['gnss'])
            rows[(ts, dev)] = [H(gen_float(rng, o.special_floats)) for _ in range(3)] + [rng.randint(0, 2 ** 40)] + \
                              [H(gen_float(rng, o.special_floats))]
        d['records_gnss'] = [[ts, dev, s] for (ts, dev), s in rows.items()]
    for part in RECORD_XYZ_KINDS:
        kind = SENSOR_KIND_FOR_PART[part]
        if present(part) and names_by_kind.get(kind):
            rows = {}
            for _ in range(rng.randint(0, o.max_rows)):
                ts, dev = gen_timestamp(rng, style), rng.choice(names_by_kind[kind])
                rows[(ts, dev)] = [H(gen_float(rng, o.special_floats)) for _ in range(3)]
            d[part] = [[ts, dev, s] for (ts, dev), s in rows.items()]

    # reconstruction: only meaningful with images
    if images:
        kp_types = []
        if present('keypoints'):
            kps = {}
            for t in rng.sample(o.feature_types, rng.randint(min(o.min_kp_types, len(o.feature_types)), len(o.feature_types))):
                ims = sorted(rng.sample(images, rng.randint(1, len(images))))
                kps[t] = {'dtype': rng.choice(o.dtypes), 'dsize': rng.choice([2, 4, 6]), 'images': ims}
                if rng.random() < o.dtype_instances:
                    kps[t]['dtype_instance'] = True
            d['keypoints'] = kps
            kp_types = list(kps)
        if present('descriptors') and kp_types:
            ds = {}
            for t in rng.sample(o.feature_types, rng.randint(1, len(o.feature_types))):
                kt = rng.choice(kp_types)
                ims = sorted(rng.sample(d['keypoints'][kt]['images'], rng.randint(1, len(d['keypoints'][kt]['images']))))
                ds[t] = {'dtype': rng.choice(o.dtypes), 'dsize': rng.choice([8, 128, 3]), 'keypoints_type': kt,
                         'metric_type': rng.choice(['L2', 'L1', 'cosine']), 'images': ims}
            d['descriptors'] = ds
        if present('global_features'):
            gs = {}
            for t in rng.sample(['apgem', 'netvlad'], rng.randint(1, 2)):
                ims = sorted(rng.sample(images, rng.randint(1, len(images))))
                gs[t] = {'dtype': rng.choice(o.dtypes), 'dsize': rng.choice([16, 5]), 'metric_type': rng.choice(['L2', 'dot']),
                         'images': ims}
            d['global_features'] = gs
        if present('matches') and kp_types:
            ms = {}
            for t in kp_types:
                ims = d['keypoints'][t]['images']
                pairs = set()
                for _ in range(rng.randint(0, 4)):
                    if len(ims) >= 2:
                        a, b = rng.sample(ims, 2)
                        if (b, a) in pairs or (a, b) in pairs:
                            continue
                        if rng.random() < o.unordered_pairs:
                            pairs.add((max(a, b), min(a, b)))     # legal (Matches.add does not reorder), unconventional
                        else:
                            pairs.add((min(a, b), max(a, b)))
                if pairs:
                    ms[t] = sorted([list(p) for p in pairs])
            d['matches'] = ms or None
        if present('points3d'):
            cols = o.cols or rng.choice([3, 6])
            n = rng.choice([0, 1, 3, 12])
            rows = []
            for _ in range(n):
                row = [H(rng.choice([rng.uniform(-100, 100), float(rng.randint(-9, 9)), 0.1234567890123, 1e5 / 3]))
                       for _ in range(3)]
                if cols == 6:
                    row += [H(float(rng.randrange(256))) for _ in range(3)]
                rows.append(row)
            d['points3d'] = {'cols': cols, 'rows': rows}
            if present('observations') and kp_types and n:
                obs = []
                seen = set()
                for _ in range(rng.randint(0, 8)):
                    kt = rng.choice(kp_types)
                    e = (rng.randrange(n), kt, rng.choice(d['keypoints'][kt]['images']), rng.randrange(50))
                    if e not in seen:
                        seen.add(e)
                        obs.append(list(e))
                if len(kp_types) > 1 and rng.random() < 0.6:
                    # one 3-D point seen through EVERY keypoints type (and twice in one image): its file lines are
                    # consecutive, one per type, and a reader must merge them
                    pid = rng.randrange(n)
                    for kt in kp_types:
                        for img in d['keypoints'][kt]['images'][:2]:
                            for e in ((pid, kt, img, rng.randrange(50)), (pid, kt, img, 50 + rng.randrange(50))):
                                if e not in seen:
                                    seen.add(e)
                                    obs.append(list(e))
                d['observations'] = obs
    if o.odd_paths and d['records_camera'] and all(d[k] is None for k in ('keypoints', 'descriptors', 'global_features', 'matches', 'observations')):
        # image records that carry no features: their paths too may be legal relative paths NOT in normal form (the text of the file
        # is the value; nothing derives a file name from them)
        for row in d['records_camera']:
            if rng.random() < 0.4:
                sub, tag = rng.choice([('./', 'dot'), ('odd//', 'dbl'), ('odd/./', 'cur'), ('odd/x/../', 'up'), ('odd\\', 'bsl')])
                head, _, tail = row[2].rpartition('/')
                row[2] = f'{sub}{tail[:-4]}_{tag}{tail[-4:]}'
        seen = {}
        d['records_camera'] = [r for r in d['records_camera'] if seen.setdefault((r[0], r[1]), r) is r]
    return d


def cam_params(rng, model):
    n = CAMERA_MODELS[model]
    w, h = rng.choice([(640, 480), (1920, 1080), (1, 1), (4000, 3000.5)])
    rest = [rng.choice([float(rng.randint(1, 2000)), rng.uniform(0, 1000), 0.0, -0.012345678901234567, 1e-7])
            for _ in range(n - 2)]
    out = []
    for v in [w, h] + rest:
        v = float(v)
        out.append(str(int(v)) if v.is_integer() else str(v))
    return out


# ------------------------------------------------------------------------------------------------------ build / describe

def mk_pose(p):
    import kapture
    r = [F(h) for h in p['r']] if p['r'] is not None else None
    t = [F(h) for h in p['t']] if p['t'] is not None else None
    return kapture.PoseTransform(r=r, t=t)


def np_type(name, as_instance=False):
    import numpy
    if name == 'float':
        return float
    return numpy.dtype(getattr(numpy, name)) if as_instance else getattr(numpy, name)


def build(d):
    """ description -> kapture.Kapture """
    import kapture
    k = kapture.Kapture()
    if d.get('sensors') is not None:
        k.sensors = kapture.Sensors()
        for sid, s in d['sensors'].items():
            k.sensors[sid] = kapture.create_sensor(s['type'], list(s['params']), s['name'])
    if d.get('rigs') is not None:
        k.rigs = kapture.Rigs()
        for rid, members in d['rigs'].items():
            for dev, p in members.items():
                k.rigs[rid, dev] = mk_pose(p)
    if d.get('trajectories') is not None:
        k.trajectories = kapture.Trajectories()
        rows = d['trajectories']
        if d.get('_history') == 'cached-then-dict-api' and len(rows) >= 2:
            # a dataset in memory has a construction history: here the first half goes through the container's own
            # item assignment, then the container's derived state is queried (whatever it caches is now filled), and the rest
            # arrives through the inherited dict interface (`setdefault(ts, {})[dev] = pose`, the idiom of kapture's own
            # csv loader and of rigs_remove_inplace), which no override sees
            half = len(rows) // 2
            for ts, dev, p in rows[:half]:
                k.trajectories[ts, dev] = mk_pose(p)
            k.trajectories.timestamps_sorted_list()
            k.trajectories.timestamp_length()
            for ts, dev, p in rows[half:]:
                k.trajectories.setdefault(ts, {})[dev] = mk_pose(p)
        else:
            for ts, dev, p in rows:
                k.trajectories[ts, dev] = mk_pose(p)
    for part, cls in (('records_camera', kapture.RecordsCamera), ('records_depth', kapture.RecordsDepth),
                      ('records_lidar', kapture.RecordsLidar)):
        if d.get(part) is not None:
            rec = cls()
            for ts, dev, p in d[part]:
                rec[ts, dev] = p
            setattr(k, part, rec)
    if d.get('records_wifi') is not None:
        rec = kapture.RecordsWifi()
        for ts, dev, sig in d['records_wifi']:
            w = kapture.RecordWifi()
            for bssid, (freq, rssi, ssid, t0, t1) in sig.items():
                w[bssid] = kapture.RecordWifiSignal(frequency=freq, rssi=F(rssi), ssid=ssid, scan_time_start=t0, scan_time_end=t1)
            rec[ts, dev] = w
        k.records_wifi = rec
    if d.get('records_bluetooth') is not None:
        rec = kapture.RecordsBluetooth()
        for ts, dev, sig in d['records_bluetooth']:
            w = kapture.RecordBluetooth()
            for addr, (rssi, name) in sig.items():
                w[addr] = kapture.RecordBluetoothSignal(rssi=F(rssi), name=name)
            rec[ts, dev] = w
        k.records_bluetooth = rec
    if d.get('records_gnss') is not None:
        rec = kapture.RecordsGnss()
        for ts, dev, (x, y, z, utc, dop) in d['records_gnss']:
            rec[ts, dev] = kapture.RecordGnss(F(x), F(y), F(z), utc, F(dop))
        k.records_gnss = rec
    for part, rcls, cls in (('records_accelerometer', 'RecordAccelerometer', 'RecordsAccelerometer'),
                            ('records_gyroscope', 'RecordGyroscope', 'RecordsGyroscope'),
                            ('records_magnetic', 'RecordMagnetic', 'RecordsMagnetic')):
        if d.get(part) is not None:
            rec = getattr(kapture, cls)()
            for ts, dev, (x, y, z) in d[part]:
                rec[ts, dev] = getattr(kapture, rcls)(F(x), F(y), F(z))
            setattr(k, part, rec)
    if d.get('keypoints') is not None:
        k.keypoints = {t: kapture.Keypoints(t, np_type(v['dtype'], v.get('dtype_instance')), v['dsize'], list(v['images']))
                       for t, v in d['keypoints'].items()}
    if d.get('descriptors') is not None:
        k.descriptors = {t: kapture.Descriptors(t, np_type(v['dtype'], v.get('dtype_instance')), v['dsize'], v['keypoints_type'], v['metric_type'],
                                                list(v['images'])) for t, v in d['descriptors'].items()}
    if d.get('global_features') is not None:
        k.global_features = {t: kapture.GlobalFeatures(t, np_type(v['dtype'], v.get('dtype_instance')), v['dsize'], v['metric_type'], list(v['images']))
                             for t, v in d['global_features'].items()}
    if d.get('matches') is not None:
        k.matches = {}
        for t, pairs in d['matches'].items():
            m = kapture.Matches()
            for a, b in pairs:
                m.add(a, b)
            k.matches[t] = m
    if d.get('points3d') is not None:
        rows = [[F(h) for h in row] for row in d['points3d']['rows']]
        arr = np.array(rows, dtype=float).reshape((-1, d['points3d']['cols']))
        k.points3d = kapture.Points3d(arr)
    if d.get('observations') is not None:
        k.observations = kapture.Observations()
        for idx, kt, img, kidx in d['observations']:
            k.observations.add(idx, kt, img, kidx)
    return k


def dtype_name(t):
    if t is float:
        return 'float'
    if t is int:
        return 'int'
    return getattr(t, '__name__', str(t))


def desc_pose(p):
    return {'r': None if p.r is None else [H(v) for v in p.r_raw], 't': None if p.t is None else [H(v) for v in p.t_raw]}


def describe(k):
    """ kapture.Kapture -> canonical description (lists sorted by key where the container is unordered) """
    import kapture
    d = {p: None for p in PART_NAMES}
    if k.sensors is not None:
        d['sensors'] = {sid: {'type': s.sensor_type, 'params': [str(x) for x in s.sensor_params], 'name': s.name or ''}
                        for sid, s in k.sensors.items()}
    if k.rigs is not None:
        d['rigs'] = {rid: {dev: desc_pose(p) for dev, p in members.items()} for rid, members in k.rigs.items()}
    if k.trajectories is not None:
        d['trajectories'] = sorted([[ts, dev, desc_pose(p)] for ts, dev, p in kapture.flatten(k.trajectories)],
                                   key=lambda e: (e[0], e[1]))
    for part in RECORD_FILE_KINDS:
        rec = getattr(k, part)
        if rec is not None:
            d[part] = sorted([[ts, dev, p] for ts, dev, p in kapture.flatten(rec)], key=lambda e: (e[0], e[1]))
    if k.records_wifi is not None:
        d['records_wifi'] = sorted([[ts, dev, {b: [s.frequency, H(s.rssi), s.ssid, s.scan_time_start, s.scan_time_end]
                                               for b, s in sig.items()}]
                                    for ts, devs in k.records_wifi.items() for dev, sig in devs.items()],
                                   key=lambda e: (e[0], e[1]))
    if k.records_bluetooth is not None:
        d['records_bluetooth'] = sorted([[ts, dev, {b: [H(s.rssi), s.name] for b, s in sig.items()}]
                                         for ts, devs in k.records_bluetooth.items() for dev, sig in devs.items()],
                                        key=lambda e: (e[0], e[1]))
    if k.records_gnss is not None:
        d['records_gnss'] = sorted([[ts, dev, [H(g.x), H(g.y), H(g.z), g.utc, H(g.dop)]]
                                    for ts, devs in k.records_gnss.items() for dev, g in devs.items()],
                                   key=lambda e: (e[0], e[1]))
    for part in RECORD_XYZ_KINDS:
        rec = getattr(k, part)
        if rec is not None:
            d[part] = sorted([[ts, dev, [H(v) for v in r.astuple()]] for ts, devs in rec.items() for dev, r in devs.items()],
                             key=lambda e: (e[0], e[1]))
    if k.keypoints is not None:
        d['keypoints'] = {t: {'dtype': dtype_name(v.dtype), 'dsize': v.dsize, 'images': sorted(v)}
                          for t, v in k.keypoints.items()}
    if k.descriptors is not None:
        d['descriptors'] = {t: {'dtype': dtype_name(v.dtype), 'dsize': v.dsize, 'keypoints_type': v.keypoints_type,
                                'metric_type': v.metric_type, 'images': sorted(v)} for t, v in k.descriptors.items()}
    if k.global_features is not None:
        d['global_features'] = {t: {'dtype': dtype_name(v.dtype), 'dsize': v.dsize, 'metric_type': v.metric_type,
                                    'images': sorted(v)} for t, v in k.global_features.items()}
    if k.matches is not None:
        d['matches'] = {t: sorted([list(p) for p in m]) for t, m in k.matches.items()}
    if k.points3d is not None:
        arr = k.points3d.as_array()
        d['points3d'] = {'cols': int(arr.shape[1]), 'rows': [[H(v) for v in row] for row in arr.tolist()]}
    if k.observations is not None:
        d['observations'] = sorted([[idx, kt, img, kidx] for idx, kt, (img, kidx) in kapture.flatten(k.observations)])
    return d


def canon(d):
    """ canonical form of a description written by hand/generator, comparable with describe(build(d)) """
    return describe(build(d))


# ------------------------------------------------------------------------------------------------------ data files

def blob_for(salt, kind, ftype, name, dtype, dsize):
    """ deterministic array for a feature file: content depends on (salt, kind, type, name) """
    import zlib
    seed = zlib.crc32(repr((salt, kind, ftype, name)).encode())
    r = np.random.RandomState(seed)
    rows = int(r.randint(0, 5))
    t = np.dtype(np_type(dtype))
    if t.kind == 'f':
        a = (r.rand(rows, dsize) * 100).astype(t)
    else:
        info = np.iinfo(t)
        a = r.randint(max(info.min, -1000), min(info.max, 1000) + 1, size=(rows, dsize)).astype(t)
    return a


def write_data_files(d, root, salt, tar_kinds=()):
    """
    writes the record/feature/match files a description refers to under `root` (not the csv files: use kapture_to_dir).
    tar_kinds: subset of {'keypoints','descriptors','global_features','matches'} stored as tar archives instead of files.
    returns {relative path or (tar path, member): bytes}
    """
    import kapture
    import kapture.io.features as kf
    import kapture.io.records as kr
    from kapture.io.tar import TarHandler, get_feature_tar_fullpath
    written = {}
    for part, getter in (('records_camera', kr.get_image_fullpath), ('records_depth', kr.get_depth_map_fullpath),
                         ('records_lidar', kr.get_record_fullpath)):
        if d.get(part):
            for ts, dev, p in d[part]:
                full = getter(root, p)
                os.makedirs(os.path.dirname(full), exist_ok=True)
                data = repr((salt, part, p)).encode()
                with open(full, 'wb') as f:
                    f.write(data)
                written[os.path.relpath(full, root)] = data
    for part, cls in (('keypoints', kapture.Keypoints), ('descriptors', kapture.Descriptors),
                      ('global_features', kapture.GlobalFeatures)):
        if d.get(part):
            for ftype, v in d[part].items():
                if part in tar_kinds:
                    tpath = get_feature_tar_fullpath(cls, ftype, root)
                    os.makedirs(os.path.dirname(tpath), exist_ok=True)
                    with TarHandler(tpath, 'a') as th:
                        for name in v['images']:
                            a = blob_for(salt, part, ftype, name, v['dtype'], v['dsize'])
                            th.add_array_to_tar(name + kf.FEATURE_FILE_EXTENSION[cls], a)
                            written[(os.path.relpath(tpath, root), name)] = a.tobytes()
                else:
                    for name in v['images']:
                        a = blob_for(salt, part, ftype, name, v['dtype'], v['dsize'])
                        full = kf.get_features_fullpath(cls, ftype, root, name)
                        os.makedirs(os.path.dirname(full), exist_ok=True)
                        with open(full, 'wb') as f:
                            f.write(a.tobytes())
                        written[os.path.relpath(full, root)] = a.tobytes()
    if d.get('matches'):
        for kt, pairs in d['matches'].items():
            if 'matches' in tar_kinds:
                tpath = get_feature_tar_fullpath(kapture.Matches, kt, root)
                os.makedirs(os.path.dirname(tpath), exist_ok=True)
                with TarHandler(tpath, 'a') as th:
                    for a_, b_ in pairs:
                        arr = blob_for(salt, 'matches', kt, a_ + '|' + b_, 'float64', 3)
                        member = kf.get_matches_fullpath((a_, b_), kt, '', th)[0]
                        th.add_array_to_tar(member, arr)
                        written[(os.path.relpath(tpath, root), (a_, b_))] = arr.tobytes()
            else:
                for a_, b_ in pairs:
                    arr = blob_for(salt, 'matches', kt, a_ + '|' + b_, 'float64', 3)
                    full = kf.get_matches_fullpath((a_, b_), kt, root)
                    os.makedirs(os.path.dirname(full), exist_ok=True)
                    with open(full, 'wb') as f:
                        f.write(arr.tobytes())
                    written[os.path.relpath(full, root)] = arr.tobytes()
    return written


def write_dataset(d, root, salt, tar_kinds=()):
    """ csv files through the real writer + data files """
    from kapture.io.csv import kapture_to_dir
    os.makedirs(root, exist_ok=True)
    k = build(d)
    kapture_to_dir(root, k)
    return k, write_data_files(d, root, salt, tar_kinds)
