"""
C17 — an archive is unpacked and marked installed only if its SHA-256 matches.
Correspondence: a HISTORY of 1..3 invocations of tools/kapture_download_dataset.py Dataset.install on the same install
directory (each invocation with fresh objects, as a new process would have, its own flags and its own server script), run against a scripted fake `requests` (truncation,
corruption, extra bytes, ignored ranges, wrong/absent/garbled size headers, failures, different content per request) from
every kind of prior local state, versus Model/C17.lean on the same script.  Compared: returned status / exception class,
archive bytes left on disk, the installed marker, every untar_file call (with the archive bytes at that moment) and the
request sequence.
Oracle (implementation only): untar_file is only ever called on bytes whose real SHA-256 equals the published one; the
marker appears only with such a call (or was there before, without force); any other outcome leaves no extraction, no marker.
"""
import hashlib
import importlib
import os
import shutil
import sys
import tempfile

ID = 'C17'
TITLE = 'An archive is unpacked and marked installed only if its SHA-256 matches'
GEN = ['ProbStatus']
RULE = ('each case = a history of 1..3 install invocations on one install directory (60% single invocations), each with its own '
        'force / no_cleaning flags and server script, later invocations starting from whatever the earlier ones left on disk '
        '(archive, marker, side files); first invocation from: prior local state (no archive / partial prefix / corrupt / oversized / complete good archive; marker or '
        'not) x force x no_cleaning x a script of 1..7 server behaviours composed from: correct bytes, truncation at any offset, '
        'corruption, extra trailing bytes, ignoring Range, wrong/absent/garbled size, connection failure, mid-stream abort, '
        'different content on a later request; thorough adds exhaustive scripts of length <=3 over a 9-behaviour alphabet. '
        'distinct non-trivial = distinct (prior, flags, script) in which at least one request is made')
ASSUMPTIONS = [
    'SHA-256 is modelled as an abstract predicate; the driver instantiates it as equality with the good content (injective on '
    'the contents that occur); the implementation uses real hashlib',
    'requests, tarfile and yaml are replaced/observed at their interface: requests.get is scripted, untar_file is wrapped to log '
    'the archive bytes (then runs for real on the good archive, which is a real tar.gz)',
    'Dataset.upgrade() after a successful install is outside this model (C20)',
    'install scripts (os.system) are not used by any indexed dataset and are outside the model',
    'between two invocations of a history nothing else touches the install directory (local edits of a kept archive are outside)',
]
TRUSTED = ['hashlib.sha256', 'file append/truncate semantics of open(.., "ab"/"wb")']

_M = None


def mods():
    global _M
    if _M is None:
        tools = os.path.join(os.environ.get('KAPTURE_REPO', '/repo'), 'tools')
        if tools not in sys.path:
            sys.path.insert(0, tools)
        import logging
        tool = importlib.import_module('kapture_download_dataset')
        dl = sys.modules['kapture.converter.downloader.download']
        logging.getLogger('downloader').setLevel(logging.CRITICAL + 1)
        _M = (tool, dl)
    return _M


def good_archive():
    """ a real (tiny) tar.gz, deterministic """
    import io
    import tarfile
    buf = io.BytesIO()
    with tarfile.open(fileobj=buf, mode='w:gz', format=tarfile.GNU_FORMAT) as tf:
        data = b'hello kapture\n'
        ti = tarfile.TarInfo('payload/readme.txt')
        ti.size = len(data)
        ti.mtime = 0
        tf.addfile(ti, io.BytesIO(data))
    b = buf.getvalue()
    # gzip header carries a timestamp: zero it for determinism
    return b[:4] + b'\x00\x00\x00\x00' + b[8:]


GOOD = None


def good():
    global GOOD
    if GOOD is None:
        GOOD = good_archive()
    return GOOD


# contents are named symbolically in cases and expanded to bytes on both sides
def content_of(name):
    g = good()
    if name == 'good':
        return g
    if name == 'bad':        # same length, one bit flipped in the middle
        i = len(g) // 2
        return g[:i] + bytes([g[i] ^ 0x10]) + g[i + 1:]
    if name == 'bad2':
        return g[:-1] + bytes([g[-1] ^ 1])
    if name == 'short':
        return g[:len(g) // 3]
    if name == 'long':
        return g + b'EXTRA'
    if name == 'empty':
        return b''
    if name.startswith('prefix:'):
        return g[:int(name[7:])]
    if name.startswith('badprefix:'):
        k = int(name[10:])
        return content_of('bad')[:k]
    raise ValueError(name)


class FakeResponse:
    def __init__(self, headers, body, abort):
        self.headers = headers
        self._body = body
        self._abort = abort

    def iter_content(self, n):
        for i in range(0, len(self._body), n):
            yield self._body[i:i + n]
        if self._abort:
            raise ConnectionError('stream aborted')


class FakeRequests:
    """ the n-th call of get() is answered by script[n] (the last one repeats) """

    def __init__(self, script):
        self.script = script
        self.n = 0
        self.log = []

    def get(self, url, headers=None, stream=False, allow_redirects=True, **kw):
        step = self.script[self.n] if self.n < len(self.script) else (self.script[-1] if self.script else {'fail': True})
        self.n += 1
        rng = (headers or {}).get('Range')
        if rng == 'bytes=0-10':
            kind, pos = 'probe', None
        elif rng is None:
            kind, pos = 'get', None
        else:
            kind, pos = 'get', int(rng[len('bytes='):-1])
        self.log.append(kind if pos is None else f'get:{pos}')
        if step.get('fail'):
            raise ConnectionError('scripted failure')
        hdr = {}
        size = step.get('size')
        if size == 'garbage':
            hdr['Content-Range'] = 'bytes 0-10/junk'
        elif size is not None:
            hdr['Content-Range'] = f'bytes 0-10/{size}'
        elif step.get('size_noslash'):
            hdr['Content-Range'] = 'bytes 0-10'
        content = content_of(step.get('content', 'good'))
        base = content[pos:] if (pos is not None and step.get('honorRange')) else content
        if step.get('cut') is not None:
            base = base[:step['cut']]
        body = base + bytes(step.get('extra', []))
        return FakeResponse(hdr, body, bool(step.get('abort')))


def calls_of(case):
    """ histories: case['calls']; older single-invocation cases (replays, seeds) carry force/noClean/script at top level """
    if 'calls' in case:
        return case['calls']
    return [{'force': case['force'], 'noClean': case['noClean'], 'script': case['script']}]


def run_real(case):
    """ returns one dict(result, archive(bytes|None), installed, extracted[list of bytes, cumulative], log, payload) per invocation """
    tool, dl = mods()
    base = tempfile.mkdtemp(prefix='c17_')
    outs = []
    try:
        inst = os.path.join(base, 'install')
        os.makedirs(inst)
        apath = os.path.join(inst, 'ds.tar.gz')
        if case['prior']['archive'] is not None:
            with open(apath, 'wb') as f:
                f.write(content_of(case['prior']['archive']))
        if case['prior']['installed']:
            tool.InstallDir(os.path.join(base, 'index.yaml'), inst)._mark_as_installed('ds', True)
        extracted = []
        for call in calls_of(case):
            # a new invocation of the tool: fresh objects, same directory
            idir = tool.InstallDir(os.path.join(base, 'index.yaml'), inst)
            ds = tool.Dataset('ds', idir, 'http://example.invalid/ds.tar.gz', hashlib.sha256(good()).hexdigest())
            fake = FakeRequests(call['script'])
            orig_requests, orig_untar = dl.requests, tool.untar_file

            def spy_untar(archive_filepath, install_dirpath):
                with open(archive_filepath, 'rb') as f:
                    extracted.append(f.read())
                return orig_untar(archive_filepath, install_dirpath)
            dl.requests = fake
            tool.untar_file = spy_untar
            try:
                try:
                    res = ds.install(force_overwrite=call['force'], no_cleaning=call['noClean'])
                except ValueError:
                    res = 'error:ValueError'
                except ConnectionError:
                    res = 'error:ConnectionError'
                except Exception as e:
                    res = 'error:' + type(e).__name__
            finally:
                dl.requests = orig_requests
                tool.untar_file = orig_untar
            archive = open(apath, 'rb').read() if os.path.isfile(apath) else None
            idir2 = tool.InstallDir(os.path.join(base, 'index.yaml'), inst)   # re-read the marker from disk
            installed = idir2.is_installed('ds')
            payload = os.path.isfile(os.path.join(inst, 'payload', 'readme.txt'))
            outs.append({'result': res, 'archive': archive, 'installed': installed, 'extracted': list(extracted),
                         'log': fake.log, 'payload': payload})
        return outs
    finally:
        shutil.rmtree(base, ignore_errors=True)


def run_impl(case):
    return {'calls': [{'result': r['result'], 'archive': None if r['archive'] is None else list(r['archive']),
                       'installed': r['installed'], 'extracted': [list(b) for b in r['extracted']], 'log': r['log']}
                      for r in run_real(case)]}


def model_script(script):
    out = []
    for s in script:
        size = s.get('size')
        out.append({'fail': bool(s.get('fail')), 'size': size, 'content': list(content_of(s.get('content', 'good'))),
                    'honorRange': bool(s.get('honorRange')), 'cut': s.get('cut'), 'extra': list(s.get('extra', [])),
                    'abort': bool(s.get('abort'))})
    return out or [{'fail': True}]


def to_model(case):
    prior = {'archive': None if case['prior']['archive'] is None else list(content_of(case['prior']['archive'])),
             'installed': case['prior']['installed']}
    return [{'prior': prior, 'good': list(good()),
             'calls': [{'force': c['force'], 'noClean': c['noClean'], 'script': model_script(c['script'])} for c in calls_of(case)]}]


def compare(case, io, mo):
    mo = mo[0]
    if 'error' in mo or 'calls' not in mo:
        return f'model error {mo}'
    if len(io['calls']) != len(mo['calls']):
        return f'number of invocations: impl {len(io["calls"])} model {len(mo["calls"])}'
    for i, (ic, mc) in enumerate(zip(io['calls'], mo['calls'])):
        for k in ('result', 'installed', 'log', 'extracted', 'archive'):
            if ic[k] != mc[k]:
                a, b = ic[k], mc[k]
                if k in ('archive', 'extracted'):
                    a = 'bytes len %s' % (None if a is None else (len(a) if k == 'archive' else [len(x) for x in a]))
                    b = 'bytes len %s' % (None if b is None else (len(b) if k == 'archive' else [len(x) for x in b]))
                return f'invocation {i}: {k}: impl {a!r} model {b!r}'
    return None


def oracle(case):
    outs = run_real(case)
    want = hashlib.sha256(good()).hexdigest()
    marked_before = case['prior']['installed']
    n_before = 0
    for i, (call, r) in enumerate(zip(calls_of(case), outs)):
        new = r['extracted'][n_before:]
        tag = f'invocation {i}: '
        for b in new:
            if hashlib.sha256(b).hexdigest() != want:
                return {'signature': 'extracted-unverified', 'detail': tag + f'untar_file was called on {len(b)} bytes whose '
                        f'sha256 is not the published one (result {r["result"]}, requests {r["log"]})'}
        if len(new) > 1:
            return {'signature': 'extracted-twice', 'detail': tag + 'more than one extraction in one install'}
        already = marked_before and not call['force']
        if r['installed'] and not new and not already:
            return {'signature': 'marked-without-verified-extraction',
                    'detail': tag + f'marked installed although nothing was extracted (result {r["result"]}, requests {r["log"]})'}
        if r['result'] != 'installed':
            # files of an EARLIER successful invocation legitimately stay on disk
            if new or r['installed'] or (r['payload'] and n_before == 0):
                return {'signature': 'failure-left-something', 'detail': tag + f'result {r["result"]} but extracted={len(new)} '
                        f'installed={r["installed"]} payload={r["payload"]}'}
        else:
            if not already and not (r['installed'] and new and r['payload']):
                return {'signature': 'success-without-install', 'detail': tag + f'reported installed but marker={r["installed"]} '
                        f'extractions={len(new)} payload={r["payload"]}'}
        marked_before = r['installed']
        n_before = len(r['extracted'])
    return None


# ---------------------------------------------------------------------------------------------------- generators

def behaviours(rng=None):
    n = len(good())
    pick = (lambda lo, hi: rng.randint(lo, hi)) if rng else (lambda lo, hi: (lo + hi) // 2)
    return [
        {'size': n, 'content': 'good', 'honorRange': True},                                   # correct
        {'size': n, 'content': 'good', 'honorRange': False},                                  # ignores Range
        {'size': n, 'content': 'good', 'honorRange': True, 'cut': pick(0, n - 1)},             # truncated
        {'size': n, 'content': 'bad', 'honorRange': True},                                    # corrupted
        {'size': n, 'content': 'good', 'honorRange': True, 'extra': [1, 2, 3]},               # trailing bytes
        {'size': None, 'content': 'good', 'honorRange': True},                                # no size
        {'size': 'garbage', 'content': 'good', 'honorRange': True},                           # garbled size
        {'size': pick(0, 2 * n), 'content': 'good', 'honorRange': True},                      # wrong size
        {'fail': True},                                                                      # connection failure
        {'size': n, 'content': 'good', 'honorRange': True, 'cut': pick(0, n - 1), 'abort': True},   # aborted mid-stream
        {'size': n + 5, 'content': 'long', 'honorRange': True},                               # consistent but different file
        {'size': n, 'content': 'bad2', 'honorRange': False, 'cut': pick(1, n)},
    ]


def priors(rng=None):
    n = len(good())
    k = rng.randint(1, n - 1) if rng else n // 2
    return [None, 'empty', f'prefix:{k}', f'badprefix:{k}', 'bad', 'long', 'good', 'short']


def gen_call(rng):
    script = []
    for _ in range(rng.randint(1, 7)):
        script.append(dict(rng.choice(behaviours(rng))))
    if rng.random() < 0.5:
        # bias towards eventual success: end with honest behaviour
        script.append({'size': len(good()), 'content': 'good', 'honorRange': True})
    return {'force': rng.random() < 0.3, 'noClean': rng.random() < 0.5, 'script': script}


def gen_case(rng):
    n = 1 if rng.random() < 0.6 else rng.randint(2, 3)
    calls = [gen_call(rng) for _ in range(n)]
    if n > 1 and rng.random() < 0.5:
        # a later forced re-install is what re-examines what an earlier invocation left behind
        calls[-1]['force'] = True
    return {'prior': {'archive': rng.choice(priors(rng)), 'installed': rng.random() < 0.2}, 'calls': calls}


def cases(rng, tier):
    out = []
    n_good = len(good())
    honest = {'size': n_good, 'content': 'good', 'honorRange': True}
    for pa in priors():
        for inst in (False, True):
            for force in (False, True):
                out.append({'prior': {'archive': pa, 'installed': inst}, 'calls': [{'force': force, 'noClean': False, 'script': [honest]}]})
    # histories: a verified first invocation (archive kept or cleaned), then a second one against a server that substitutes,
    # corrupts, truncates or lengthens the content while announcing a consistent size; forced or not
    second = [{'size': n_good, 'content': 'bad', 'honorRange': True}, {'size': n_good, 'content': 'bad2', 'honorRange': False},
              {'size': n_good + 5, 'content': 'long', 'honorRange': True}, {'size': n_good, 'content': 'good', 'honorRange': True, 'cut': n_good // 2},
              {'size': None, 'content': 'bad', 'honorRange': True}, {'fail': True}, honest]
    for keep in (False, True):
        for beh in second:
            for force in (False, True):
                out.append({'prior': {'archive': None, 'installed': False},
                            'calls': [{'force': False, 'noClean': keep, 'script': [honest]},
                                      {'force': force, 'noClean': keep, 'script': [beh]}]})
                out.append({'prior': {'archive': None, 'installed': False},
                            'calls': [{'force': False, 'noClean': keep, 'script': [honest]},
                                      {'force': force, 'noClean': True, 'script': [beh]},
                                      {'force': True, 'noClean': False, 'script': [beh, honest]}]})
    # a failed first invocation, then a second one
    for first in second[:5]:
        for beh in second:
            out.append({'prior': {'archive': None, 'installed': False},
                        'calls': [{'force': False, 'noClean': True, 'script': [first]}, {'force': False, 'noClean': False, 'script': [beh]}]})
    if tier == 'thorough':
        import itertools
        beh = behaviours()[:9]
        for n in (1, 2, 3):
            for seq in itertools.product(range(len(beh)), repeat=n):
                for pa in (None, f'prefix:{len(good()) // 2}', 'bad'):
                    out.append({'prior': {'archive': pa, 'installed': False},
                                'calls': [{'force': False, 'noClean': True, 'script': [beh[i] for i in seq] + [honest]}]})
    n = 500 if tier == 'quick' else 6000
    for _ in range(n):
        out.append(gen_case(rng))
    return out


def nontrivial(case):
    cs = calls_of(case)
    if len(cs) == 1 and case['prior']['installed'] and not cs[0]['force']:
        return None
    import json
    return json.dumps(case, sort_keys=True)


def distribution(cases_):
    d = {}
    for c in cases_:
        d['prior:' + str(c['prior']['archive']).split(':')[0]] = d.get('prior:' + str(c['prior']['archive']).split(':')[0], 0) + 1
        cs = calls_of(c)
        d['invocations:%d' % len(cs)] = d.get('invocations:%d' % len(cs), 0) + 1
        for call in cs:
            d['len:%d' % len(call['script'])] = d.get('len:%d' % len(call['script']), 0) + 1
    return d


def shrink(case, still_fails):
    calls = [dict(c, script=list(c['script'])) for c in calls_of(case)]
    base = {'prior': case['prior']}
    changed = True
    while changed:
        changed = False
        # drop whole invocations first, then script steps
        for i in range(len(calls) - 1, -1, -1):
            cand = calls[:i] + calls[i + 1:]
            if cand and still_fails(dict(base, calls=cand)):
                calls, changed = cand, True
                break
        if changed:
            continue
        for ci, c in enumerate(calls):
            for i in range(len(c['script']) - 1, -1, -1):
                ns = c['script'][:i] + c['script'][i + 1:]
                if not ns:
                    continue
                cand = calls[:ci] + [dict(c, script=ns)] + calls[ci + 1:]
                if still_fails(dict(base, calls=cand)):
                    calls, changed = cand, True
                    break
            if changed:
                break
    return dict(base, calls=calls)
