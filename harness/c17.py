"""
C17 — an archive is unpacked and marked installed only if its SHA-256 matches.
Correspondence: tools/kapture_download_dataset.py Dataset.install run against a scripted fake `requests` (truncation,
corruption, extra bytes, ignored ranges, wrong/absent/garbled size headers, failures, different content per request) from
every kind of prior local state, versus Model/C17.lean on the same script.  Compared: returned status / exception class,
archive bytes left on disk, the installed marker, every untar_file call (with the archive bytes at that moment) and the
request sequence.
Oracle (implementation only): untar_file is only ever called on bytes whose real SHA-256 equals the published one; the
marker appears only with such a call (or was there before, without force); any other outcome leaves no extraction, no marker.
"""
import hashlib
import importlib
import os
import shutil
import sys
import tempfile

ID = 'C17'
TITLE = 'An archive is unpacked and marked installed only if its SHA-256 matches'
GEN = []
RULE = ('each case = prior local state (no archive / partial prefix / corrupt / oversized / complete good archive; marker or '
        'not) x force x no_cleaning x a script of 1..7 server behaviours composed from: correct bytes, truncation at any offset, '
        'corruption, extra trailing bytes, ignoring Range, wrong/absent/garbled size, connection failure, mid-stream abort, '
        'different content on a later request; thorough adds exhaustive scripts of length <=3 over a 9-behaviour alphabet. '
        'distinct non-trivial = distinct (prior, flags, script) in which at least one request is made')
ASSUMPTIONS = [
    'SHA-256 is modelled as an abstract predicate; the driver instantiates it as equality with the good content (injective on '
    'the contents that occur); the implementation uses real hashlib',
    'requests, tarfile and yaml are replaced/observed at their interface: requests.get is scripted, untar_file is wrapped to log '
    'the archive bytes (then runs for real on the good archive, which is a real tar.gz)',
    'Dataset.upgrade() after a successful install is outside this model (C20)',
    'install scripts (os.system) are not used by any indexed dataset and are outside the model',
]
TRUSTED = ['hashlib.sha256', 'file append/truncate semantics of open(.., "ab"/"wb")']

_M = None


def mods():
    global _M
    if _M is None:
        tools = os.path.join(os.environ.get('KAPTURE_REPO', '/repo'), 'tools')
        if tools not in sys.path:
            sys.path.insert(0, tools)
        import logging
        tool = importlib.import_module('kapture_download_dataset')
        dl = sys.modules['kapture.converter.downloader.download']
        logging.getLogger('downloader').setLevel(logging.CRITICAL + 1)
        _M = (tool, dl)
    return _M


def good_archive():
    """ a real (tiny) tar.gz, deterministic """
    import io
    import tarfile
    buf = io.BytesIO()
    with tarfile.open(fileobj=buf, mode='w:gz', format=tarfile.GNU_FORMAT) as tf:
        data = b'hello kapture\n'
        ti = tarfile.TarInfo('payload/readme.txt')
        ti.size = len(data)
        ti.mtime = 0
        tf.addfile(ti, io.BytesIO(data))
    b = buf.getvalue()
    # gzip header carries a timestamp: zero it for determinism
    return b[:4] + b'\x00\x00\x00\x00' + b[8:]


GOOD = None


def good():
    global GOOD
    if GOOD is None:
        GOOD = good_archive()
    return GOOD


# contents are named symbolically in cases and expanded to bytes on both sides
def content_of(name):
    g = good()
    if name == 'good':
        return g
    if name == 'bad':        # same length, one bit flipped in the middle
        i = len(g) // 2
        return g[:i] + bytes([g[i] ^ 0x10]) + g[i + 1:]
    if name == 'bad2':
        return g[:-1] + bytes([g[-1] ^ 1])
    if name == 'short':
        return g[:len(g) // 3]
    if name == 'long':
        return g + b'EXTRA'
    if name == 'empty':
        return b''
    if name.startswith('prefix:'):
        return g[:int(name[7:])]
    if name.startswith('badprefix:'):
        k = int(name[10:])
        return content_of('bad')[:k]
    raise ValueError(name)


class FakeResponse:
    def __init__(self, headers, body, abort):
        self.headers = headers
        self._body = body
        self._abort = abort

    def iter_content(self, n):
        for i in range(0, len(self._body), n):
            yield self._body[i:i + n]
        if self._abort:
            raise ConnectionError('stream aborted')


class FakeRequests:
    """ the n-th call of get() is answered by script[n] (the last one repeats) """

    def __init__(self, script):
        self.script = script
        self.n = 0
        self.log = []

    def get(self, url, headers=None, stream=False, allow_redirects=True, **kw):
        step = self.script[self.n] if self.n < len(self.script) else (self.script[-1] if self.script else {'fail': True})
        self.n += 1
        rng = (headers or {}).get('Range')
        if rng == 'bytes=0-10':
            kind, pos = 'probe', None
        elif rng is None:
            kind, pos = 'get', None
        else:
            kind, pos = 'get', int(rng[len('bytes='):-1])
        self.log.append(kind if pos is None else f'get:{pos}')
        if step.get('fail'):
            raise ConnectionError('scripted failure')
        hdr = {}
        size = step.get('size')
        if size == 'garbage':
            hdr['Content-Range'] = 'bytes 0-10/junk'
        elif size is not None:
            hdr['Content-Range'] = f'bytes 0-10/{size}'
        elif step.get('size_noslash'):
            hdr['Content-Range'] = 'bytes 0-10'
        content = content_of(step.get('content', 'good'))
        base = content[pos:] if (pos is not None and step.get('honorRange')) else content
        if step.get('cut') is not None:
            base = base[:step['cut']]
        body = base + bytes(step.get('extra', []))
        return FakeResponse(hdr, body, bool(step.get('abort')))


def run_real(case):
    """ returns dict(result, archive(bytes|None), installed, extracted[list of bytes], log) """
    tool, dl = mods()
    base = tempfile.mkdtemp(prefix='c17_')
    try:
        inst = os.path.join(base, 'install')
        os.makedirs(inst)
        idir = tool.InstallDir(os.path.join(base, 'index.yaml'), inst)
        ds = tool.Dataset('ds', idir, 'http://example.invalid/ds.tar.gz', hashlib.sha256(good()).hexdigest())
        apath = os.path.join(inst, 'ds.tar.gz')
        if case['prior']['archive'] is not None:
            with open(apath, 'wb') as f:
                f.write(content_of(case['prior']['archive']))
        if case['prior']['installed']:
            idir._mark_as_installed('ds', True)
        fake = FakeRequests(case['script'])
        extracted = []
        orig_requests, orig_untar = dl.requests, tool.untar_file

        def spy_untar(archive_filepath, install_dirpath):
            with open(archive_filepath, 'rb') as f:
                extracted.append(f.read())
            return orig_untar(archive_filepath, install_dirpath)
        dl.requests = fake
        tool.untar_file = spy_untar
        try:
            try:
                res = ds.install(force_overwrite=case['force'], no_cleaning=case['noClean'])
            except ValueError:
                res = 'error:ValueError'
            except ConnectionError:
                res = 'error:ConnectionError'
            except Exception as e:
                res = 'error:' + type(e).__name__
        finally:
            dl.requests = orig_requests
            tool.untar_file = orig_untar
        archive = open(apath, 'rb').read() if os.path.isfile(apath) else None
        idir2 = tool.InstallDir(os.path.join(base, 'index.yaml'), inst)   # re-read the marker from disk
        installed = idir2.is_installed('ds')
        payload = os.path.isfile(os.path.join(inst, 'payload', 'readme.txt'))
        return {'result': res, 'archive': archive, 'installed': installed, 'extracted': extracted, 'log': fake.log,
                'payload': payload}
    finally:
        shutil.rmtree(base, ignore_errors=True)


def run_impl(case):
    r = run_real(case)
    return {'result': r['result'], 'archive': None if r['archive'] is None else list(r['archive']),
            'installed': r['installed'], 'extracted': [list(b) for b in r['extracted']], 'log': r['log']}


def to_model(case):
    script = []
    for s in case['script']:
        size = s.get('size')
        script.append({'fail': bool(s.get('fail')), 'size': size, 'content': list(content_of(s.get('content', 'good'))),
                       'honorRange': bool(s.get('honorRange')), 'cut': s.get('cut'), 'extra': list(s.get('extra', [])),
                       'abort': bool(s.get('abort'))})
    if not script:
        script = [{'fail': True}]
    prior = {'archive': None if case['prior']['archive'] is None else list(content_of(case['prior']['archive'])),
             'installed': case['prior']['installed']}
    return [{'prior': prior, 'force': case['force'], 'noClean': case['noClean'], 'good': list(good()), 'script': script}]


def compare(case, io, mo):
    mo = mo[0]
    if 'error' in mo:
        return f'model error {mo}'
    for k in ('result', 'installed', 'log', 'extracted', 'archive'):
        if io[k] != mo[k]:
            a, b = io[k], mo[k]
            if k in ('archive', 'extracted'):
                a = 'bytes len %s' % (None if a is None else (len(a) if k == 'archive' else [len(x) for x in a]))
                b = 'bytes len %s' % (None if b is None else (len(b) if k == 'archive' else [len(x) for x in b]))
            return f'{k}: impl {a!r} model {b!r}'
    return None


def oracle(case):
    r = run_real(case)
    want = hashlib.sha256(good()).hexdigest()
    for b in r['extracted']:
        if hashlib.sha256(b).hexdigest() != want:
            return {'signature': 'extracted-unverified', 'detail': f'untar_file was called on {len(b)} bytes whose sha256 '
                    f'is not the published one (result {r["result"]}, requests {r["log"]})'}
    if len(r['extracted']) > 1:
        return {'signature': 'extracted-twice', 'detail': 'more than one extraction in one install'}
    if r['installed']:
        already = case['prior']['installed'] and not case['force']
        if not r['extracted'] and not already:
            return {'signature': 'marked-without-verified-extraction',
                    'detail': f'marked installed although nothing was extracted (result {r["result"]}, requests {r["log"]})'}
    if r['result'] != 'installed':
        if r['extracted'] or r['installed'] or r['payload']:
            return {'signature': 'failure-left-something', 'detail': f'result {r["result"]} but extracted={len(r["extracted"])} '
                    f'installed={r["installed"]} payload={r["payload"]}'}
    else:
        already = case['prior']['installed'] and not case['force']
        if not already and not (r['installed'] and r['extracted'] and r['payload']):
            return {'signature': 'success-without-install', 'detail': f'reported installed but marker={r["installed"]} '
                    f'extractions={len(r["extracted"])} payload={r["payload"]}'}
    return None


# ---------------------------------------------------------------------------------------------------- generators

def behaviours(rng=None):
    n = len(good())
    pick = (lambda lo, hi: rng.randint(lo, hi)) if rng else (lambda lo, hi: (lo + hi) // 2)
    return [
        {'size': n, 'content': 'good', 'honorRange': True},                                   # correct
        {'size': n, 'content': 'good', 'honorRange': False},                                  # ignores Range
        {'size': n, 'content': 'good', 'honorRange': True, 'cut': pick(0, n - 1)},             # truncated
        {'size': n, 'content': 'bad', 'honorRange': True},                                    # corrupted
        {'size': n, 'content': 'good', 'honorRange': True, 'extra': [1, 2, 3]},               # trailing bytes
        {'size': None, 'content': 'good', 'honorRange': True},                                # no size
        {'size': 'garbage', 'content': 'good', 'honorRange': True},                           # garbled size
        {'size': pick(0, 2 * n), 'content': 'good', 'honorRange': True},                      # wrong size
        {'fail': True},                                                                      # connection failure
        {'size': n, 'content': 'good', 'honorRange': True, 'cut': pick(0, n - 1), 'abort': True},   # aborted mid-stream
        {'size': n + 5, 'content': 'long', 'honorRange': True},                               # consistent but different file
        {'size': n, 'content': 'bad2', 'honorRange': False, 'cut': pick(1, n)},
    ]


def priors(rng=None):
    n = len(good())
    k = rng.randint(1, n - 1) if rng else n // 2
    return [None, 'empty', f'prefix:{k}', f'badprefix:{k}', 'bad', 'long', 'good', 'short']


def gen_case(rng):
    script = []
    for _ in range(rng.randint(1, 7)):
        script.append(dict(rng.choice(behaviours(rng))))
    if rng.random() < 0.5:
        # bias towards eventual success: end with honest behaviour
        script.append({'size': len(good()), 'content': 'good', 'honorRange': True})
    return {'prior': {'archive': rng.choice(priors(rng)), 'installed': rng.random() < 0.2},
            'force': rng.random() < 0.3, 'noClean': rng.random() < 0.5, 'script': script}


def cases(rng, tier):
    out = []
    honest = {'size': len(good()), 'content': 'good', 'honorRange': True}
    for pa in priors():
        for inst in (False, True):
            for force in (False, True):
                out.append({'prior': {'archive': pa, 'installed': inst}, 'force': force, 'noClean': False, 'script': [honest]})
    if tier == 'thorough':
        import itertools
        beh = behaviours()[:9]
        for n in (1, 2, 3):
            for seq in itertools.product(range(len(beh)), repeat=n):
                for pa in (None, f'prefix:{len(good()) // 2}', 'bad'):
                    out.append({'prior': {'archive': pa, 'installed': False}, 'force': False, 'noClean': True,
                                'script': [beh[i] for i in seq] + [honest]})
    n = 500 if tier == 'quick' else 6000
    for _ in range(n):
        out.append(gen_case(rng))
    return out


def nontrivial(case):
    if case['prior']['installed'] and not case['force']:
        return None
    import json
    return json.dumps(case, sort_keys=True)


def distribution(cases_):
    d = {}
    for c in cases_:
        d['prior:' + str(c['prior']['archive']).split(':')[0]] = d.get('prior:' + str(c['prior']['archive']).split(':')[0], 0) + 1
        d['len:%d' % len(c['script'])] = d.get('len:%d' % len(c['script']), 0) + 1
    return d


def shrink(case, still_fails):
    script = list(case['script'])
    changed = True
    while changed and len(script) > 1:
        changed = False
        for i in range(len(script) - 1, -1, -1):
            cand = script[:i] + script[i + 1:]
            if cand and still_fails(dict(case, script=cand)):
                script = cand
                changed = True
                break
    return dict(case, script=script)
