"""
C16 — loading or upgrading a dataset treats file contents purely as data.
Correspondence: (a) dtype_from_name on a pool of strings (accepted names, spellings, Python expressions) versus the model's table
lookup; (b) the files kapture_from_dir opens versus Model/C16.loadReads; (c) the file-system effects of the real in-place
upgrade (write / remove / move, observed through audit events) versus Model/C16.upgradeEffects.
Oracle (implementation only): a valid dataset directory in which ONE text field of ONE file is replaced by a crafted string
(expressions with side effects carrying a unique canary, paths, numbers, names, version lines) is loaded / upgraded under a
sys.addaudithook monitor: no compile/exec of anything containing the field, no process, no socket, no import of a new module, no
canary side effect; loading opens files for reading only and only under the directory; upgrading writes, moves and removes only
under the directory; an invalid element type is reported as an error, and so is a field of a NUMERIC column (integer timestamps,
the floats of a pose in trajectories.txt / rigs.txt, the typed fields of gnss / accelerometer / gyroscope / magnetic / wifi / bluetooth records,
the point and feature indices of observations.txt) that is not a number (an empty pose field stands for "no value").
"""
import json
import os
import random
import shutil
import sys
import tempfile

import c20
import kgen

ID = 'C16'
TITLE = 'Loading or upgrading a dataset treats file contents purely as data'
GEN = ['DtypeNames', 'FileNames', 'Headers']
RULE = ('each case = a generated dataset written to disk (1.1 for the load path, 1.0 for the upgrade path), then one text field '
        '(file, row, column drawn uniformly over all text files incl. descriptor files and the version line) replaced by a string '
        'from a pool of ~30 payloads (side-effect expressions with a canary, path traversals, absolute paths, numbers, empty, '
        'unicode, version lines, long strings); a quarter of the load cases aim at the numeric columns (timestamps, pose fields), half of '
        'those at the last line of the file; plus datasets with 5000 (thorough: up to 66000) image records and 50 times as many 3-D points (at most 300000); distinct non-trivial = distinct (file, column, payload class) reached')
ASSUMPTIONS = [
    'that the interpreter does nothing else is OBSERVED through audit events (open, compile, exec, import, os.system, '
    'subprocess.Popen, socket.*, os.remove, os.rename, shutil.move, os.mkdir ...), not proved',
    'os.stat / path.exists probes are not audit events and are not counted as effects',
    'tar handlers are opened by the caller, not by kapture_from_dir; they are outside this check',
]
TRUSTED = ['CPython audit hooks']
PARTIAL = ('effect discipline of the model proved; absence of evaluation in the interpreter observed via audit events; "an invalid value '
           'is reported" is proved on the models of the element-type lookup and of the trajectory / rig readers (Model/C01Typed.lean, tied to the '
           'code by the C01 correspondence) and observed on the real loader for every numeric column')
_cache = {}
# one canary folder per harness process: several checks of this property may run at the same time (a sweep in the background)
CANARY_DIR = os.path.join(tempfile.gettempdir(), 'c16_canary_%d' % os.getpid())
import atexit  # noqa: E402
atexit.register(lambda: shutil.rmtree(CANARY_DIR, ignore_errors=True))

PAYLOADS = [
    ('expr', "__import__('os').system('touch {canary}')"),
    ('expr', "open('{canary}','w').write('x')"),
    ('expr', "exec(\"import os; os.mkdir('{canary}')\")"),
    ('expr', "[c for c in ().__class__.__base__.__subclasses__()]"),
    ('expr', "float32 if not open('{canary}','w') else float32"),
    ('expr', "__import__('socket').socket()"),
    ('expr', "__import__('subprocess').Popen(['touch','{canary}'])"),
    ('expr', "lambda: 1"),
    ('name', 'float32'), ('name', 'np.float64'), ('name', 'numpy.uint8'), ('name', 'float'), ('name', 'int'),
    ('name', 'os'), ('name', 'sys.exit'), ('name', 'quit'), ('name', 'dtype'), ('name', 'ndarray'), ('name', 'str'),
    # dotted names whose prefix is an importable module other than numpy: resolving them by import runs module code
    ('modname', 'colorsys.float32'), ('modname', 'sched.uint8'), ('modname', 'netrc.float64'), ('modname', 'tabnanny.float32'),
    ('modname', 'pyclbr.int32'), ('modname', 'plistlib.float32'), ('modname', 'wave.uint8'), ('modname', 'xml.dom.minidom.float32'),
    # a sibling of the dataset directory whose name STARTS WITH the dataset directory's name: inside for a string-prefix test,
    # outside for the file system
    ('path', '../../../{rootname}_q/r2d2'), ('path', '../../../{rootname}.bak/x'), ('path', '../../../{rootname}2'),
    # compatibility characters that NFKC turns into '.' and '/' (U+FF0E, U+FF0F), the one-dot leader and the fraction / division
    # slashes: one path component as written, a way out once normalised
    ('path', '\uff0e\uff0e\uff0f\uff0e\uff0e\uff0f\uff0e\uff0e\uff0fescaped_x'), ('path', '\uff0e\uff0e\uff0fescaped_y'),
    ('path', '\u2024\u2024\uff0fescaped_z'), ('path', '..\u2215escaped_w'), ('path', '\uff0e\uff0e\uff3cescaped_v'),
    ('path', '../../../../{canary_rel}'), ('path', '/{canary_abs}'), ('path', '..'), ('path', 'a/../../b'),
    ('num', '1e400'), ('num', '-0'), ('num', '007'), ('num', '99999999999999999999999'), ('num', 'nan'), ('num', '0x10'),
    ('misc', '# kapture format: 1.0'), ('misc', '# kapture format: 1.2'), ('misc', '# kapture format: 0.9'),
    ('misc', ''), ('misc', 'ünï çødé'), ('misc', 'A' * 300), ('misc', '# kapture format: 9.9'), ('misc', '%s%s%n'),
    ('misc', '${HOME}'), ('misc', '`id`'),
]

# ---------------------------------------------------------------------------------------------------- audit monitor

_events = []
_recording = [False]
_hook_installed = [False]
WATCH = ('open', 'compile', 'exec', 'import', 'os.system', 'subprocess.Popen', 'os.remove', 'os.rename', 'os.rmdir', 'os.mkdir',
         'shutil.move', 'shutil.copyfile', 'shutil.rmtree', 'os.symlink', 'os.link', 'os.chmod', 'os.truncate', 'os.exec',
         'os.posix_spawn', 'os.fork', 'ctypes.dlopen', 'urllib.Request', 'os.putenv')


def _hook(event, args):
    if not _recording[0]:
        return
    if event in WATCH or event.startswith('socket.'):
        try:
            _events.append((event, tuple(a if isinstance(a, (str, int, bytes, type(None))) else repr(a)[:200] for a in args)))
        except Exception:
            _events.append((event, ('<unrepresentable>',)))


def monitored(fn):
    if not _hook_installed[0]:
        sys.addaudithook(_hook)
        _hook_installed[0] = True
    del _events[:]
    _recording[0] = True
    try:
        try:
            fn()
            err = None
        except BaseException as e:
            err = type(e).__name__
    finally:
        _recording[0] = False
    return err, list(_events)


# ---------------------------------------------------------------------------------------------------- cases

def gen_case(rng):
    path = rng.choice(['load', 'load', 'upgrade'])
    kind, payload = rng.choice(PAYLOADS)
    if path == 'upgrade':
        c = c20.gen_case(rng)
        c['route'] = 'copy:skip'
        c['clash'] = False
        c['params'] = {'kp': None, 'desc': None, 'gf': None, 'descMetric': 'L2', 'gfMetric': 'L2'}
        name_only = rng.random() < 0.4
        if name_only:
            # the feature NAME of a 1.0 descriptor file becomes a folder name on upgrade: aim path payloads at it
            kind, payload = rng.choice([pp for pp in PAYLOADS if pp[0] == 'path'])
        json_model = (not name_only) and rng.random() < 0.3
        if json_model:
            kind, payload = rng.choice([pp for pp in PAYLOADS if pp[0] in ('path', 'expr')])
        return {'path': 'upgrade', 'base': c, 'pick': rng.randrange(10 ** 6), 'payload': payload, 'pclass': kind,
                'name_only': name_only, 'json_model': json_model}
    opts = kgen.Opts(p_part=0.8, id_pool=3, fancy_ids=False, ts_style='small', max_rows=3, image_pool=4, dtypes=['float32'])
    dtype_only = rng.random() < 0.35
    if rng.random() < 0.2:
        # a stale or foreign version line on ONE feature descriptor file of an otherwise current dataset (what a folder copied
        # from an older dataset looks like): loading may refuse it, never repair it on disk
        kind, payload = 'misc', rng.choice(['# kapture format: 1.0', '# kapture format: 1.0', '# kapture format: 1.2', '# kapture format: 0.9'])
        dtype_only = True
        opts.force_parts = {'records_camera', 'keypoints'}
    numcol = (not dtype_only) and rng.random() < 0.25
    if numcol:
        opts.force_parts = {'trajectories'}
    return {'path': 'load', 'd': kgen.gen_dataset(rng, opts), 'pick': rng.randrange(10 ** 6), 'payload': payload, 'pclass': kind,
            'dtype_only': dtype_only, 'numcol': numcol}


def cases(rng, tier):
    n = 220 if tier == 'quick' else 5000
    out = [gen_case(rng) for _ in range(n)]
    # size is part of "however the directory is made": datasets with thousands of image records (a benign payload)
    for nbig in ([5000] if tier == 'quick' else [1000, 5000, 20000, 66000]):
        o = kgen.Opts(p_part=0.8, id_pool=3, fancy_ids=False, ts_style='small', max_rows=3, image_pool=4, dtypes=['float32'],
                      force_parts={'records_camera', 'keypoints', 'descriptors', 'global_features', 'points3d'})
        for _ in range(200):
            dbig = kgen.gen_dataset(rng, o)
            if dbig['records_camera'] and dbig['keypoints'] and dbig['points3d'] is not None:
                break
        out.append({'path': 'load', 'd': dbig, 'pick': rng.randrange(10 ** 6), 'payload': '7', 'pclass': 'number',
                    'dtype_only': False, 'big': nbig})
    out.append({'path': 'dtype', 'names': [p for _, p in PAYLOADS] + ['float16', 'int8', 'uint64', 'double', 'np.int', 'bool_', 'float32 ',
                                                                       ' float32', 'FLOAT32', 'generic', 'number', 'float_', 'longdouble']})
    return out


# columns the format types as numbers: integer timestamps (column 0), floats of a pose (an empty field stands for "no rotation" /
# "no translation")
NUMERIC_COLS = {'trajectories.txt': [0, 2, 3, 4, 5, 6, 7, 8], 'rigs.txt': [2, 3, 4, 5, 6, 7, 8], 'records_camera.txt': [0],
                'records_depth.txt': [0], 'records_lidar.txt': [0],
                # timestamp, device_id, then the fields the record classes declare (see Gen/RecordSchemas.lean)
                'records_gnss.txt': [0, 2, 3, 4, 5, 6], 'records_accelerometer.txt': [0, 2, 3, 4],
                'records_gyroscope.txt': [0, 2, 3, 4], 'records_magnetic.txt': [0, 2, 3, 4],
                # timestamp, device_id, address, then frequency, rssi, ssid, scan start, scan end / rssi, name
                'records_wifi.txt': [0, 3, 4, 6, 7], 'records_bluetooth.txt': [0, 3],
                # point index, keypoints type, then (image, feature index) pairs
                'observations.txt': [0, 3, 5, 7, 9, 11]}
# which of those are integers (the rest are floats)
INTEGER_COLS = {'records_gnss.txt': [0, 5], 'records_wifi.txt': [0, 3, 6, 7], 'observations.txt': [0, 3, 5, 7, 9, 11]}


def is_integer_col(fname, col):
    return col in INTEGER_COLS.get(fname, [0])


def valid_number(text, integer):
    try:
        int(text) if integer else float(text)
        return True
    except ValueError:
        return False


def fill(payload, canary):
    rel = os.path.relpath(canary, '/').replace(os.sep, '/')
    return payload.replace('{canary}', canary).replace('{canary_rel}', rel).replace('{canary_abs}', rel)


def text_files(root):
    out = []
    for dp, _, fns in os.walk(root):
        for fn in fns:
            if fn.endswith('.txt'):
                out.append(os.path.relpath(os.path.join(dp, fn), root))
    return sorted(out)


_written = [None]


def mutate_field(root, case, canary):
    """ replaces one field of one text file; returns (file, line index, column, was a dtype column) """
    _written[0] = None
    rng = random.Random(case['pick'])
    files = text_files(root)
    cfg = [f for f in files if f.split('/')[-1] in ('keypoints.txt', 'descriptors.txt', 'global_features.txt') and 'reconstruction' in f]
    if case.get('dtype_only') and cfg:
        files = cfg
        kp_cfg = [f for f in cfg if f.endswith('/keypoints.txt')]
        if case['payload'].startswith('# kapture format') and kp_cfg and rng.random() < 0.7:
            files = kp_cfg      # its columns are the same in 1.0 and 1.1: only the version line tells the formats apart
    numeric = [f for f in files if f.split('/')[-1] in NUMERIC_COLS and
               any(l.strip() and not l.startswith('#') for l in open(os.path.join(root, f)).read().split('\n'))]
    if case.get('numcol') and numeric:
        files = numeric
    rel = rng.choice(files)
    p = os.path.join(root, rel)
    lines = open(p).read().split('\n')
    data_idx = [i for i, l in enumerate(lines) if l.strip() and not l.startswith('#')]
    payload = fill(case['payload'], canary).replace('{rootname}', os.path.basename(os.path.normpath(root)))
    if case.get('name_only') and cfg:
        rel = rng.choice(cfg)
        p = os.path.join(root, rel)
        lines = open(p).read().split('\n')
        data_idx = [i for i, l in enumerate(lines) if l.strip() and not l.startswith('#')]
    jcfg = [f for f in cfg if f.split('/')[-1] in ('keypoints.txt', 'global_features.txt')]
    if case.get('json_model') and jcfg:
        # the crafted text stands in the extraction-parameters file saved beside the features (the model name an extractor wrote),
        # and the feature name of the descriptor file is blank: whatever the upgrade takes from there is file content too
        rel = rng.choice(jcfg)
        p = os.path.join(root, rel)
        lines = open(p).read().split('\n')
        data_idx = [i for i, l in enumerate(lines) if l.strip() and not l.startswith('#')]
        jname = 'extract_local_features.json' if rel.endswith('keypoints.txt') else 'extract_global_features.json'
        with open(os.path.join(os.path.dirname(p), jname), 'w') as f:
            json.dump({'model': payload, 'model_name': payload, 'top_k': 5000}, f)
        if data_idx:
            i = data_idx[0]
            fields = [f.strip() for f in lines[i].split(',')]
            fields[0] = ''
            lines[i] = ', '.join(fields)
            with open(p, 'w') as f:
                f.write('\n'.join(lines))
            _written[0] = ''
            return (rel, i, 0, False)
    if not data_idx or (case['payload'].startswith('# kapture') and (case.get('dtype_only') or rng.random() < 0.7)):
        lines[0] = payload if payload.startswith('#') else '# kapture format: ' + payload
        where = (rel, 0, -1, False)
    else:
        i = rng.choice(data_idx)
        fields = [f.strip() for f in lines[i].split(',')]
        col = rng.randrange(len(fields))
        if case.get('dtype_only') and rel in cfg:
            col = 1
        if case.get('numcol') and rel in numeric:
            if rng.random() < 0.5:
                i = data_idx[-1]        # the last line of a file is a line like any other
                fields = [f.strip() for f in lines[i].split(',')]
            col = rng.choice([c for c in NUMERIC_COLS[rel.split('/')[-1]] if c < len(fields)] or [0])
        if case.get('name_only') and rel in cfg:
            col = 0
        fields[col] = payload.replace(',', ';').replace('\n', ' ')
        _written[0] = fields[col].strip()
        lines[i] = ', '.join(fields)
        where = (rel, i, col, rel in cfg and col == 1)
    with open(p, 'w') as f:
        f.write('\n'.join(lines))
    return where


def rel_to(root, p):
    try:
        p = os.fspath(p)
    except TypeError:
        return None
    if isinstance(p, bytes):
        p = p.decode('utf-8', 'replace')
    ap = os.path.abspath(p)
    r = os.path.abspath(root)
    if ap == r or ap.startswith(r + os.sep):
        return os.path.relpath(ap, r)
    return None


def run_real(case):
    k = json.dumps(case, sort_keys=True)
    if k in _cache:
        return _cache[k]
    _cache.clear()
    res = {}
    if case['path'] == 'dtype':
        from kapture.io.csv import keypoints_config_from_file
        outs = []
        tmpd = tempfile.mkdtemp(prefix='c16_dt_')
        for n in case['names']:
            canary = os.path.join(CANARY_DIR, 'dtype')
            shutil.rmtree(CANARY_DIR, ignore_errors=True)
            os.makedirs(CANARY_DIR)
            s = fill(n, canary)
            cfg = os.path.join(tmpd, 'keypoints.txt')
            with open(cfg, 'w') as f:
                f.write('# kapture format: 1.1\n# name, dtype, dsize\nsift, ' + s.replace(',', ';').replace('\n', ' ') + ', 2\n')
            try:
                t = keypoints_config_from_file(cfg).dtype
                outs.append('ok:' + getattr(t, '__name__', str(t)))
            except ValueError:
                outs.append('ValueError')
            except Exception as e:
                outs.append('error:' + type(e).__name__)
            if os.listdir(CANARY_DIR):
                outs[-1] = 'SIDE-EFFECT'
        shutil.rmtree(tmpd, ignore_errors=True)
        res['dtype'] = outs
        res['names'] = [fill(n, os.path.join(CANARY_DIR, 'dtype')).replace(',', ';').strip() for n in case['names']]
        _cache[k] = res
        return res
    from kapture.io.csv import kapture_from_dir
    from kapture.utils.upgrade import upgrade_1_0_to_1_1_inplace
    import kapture.io.csv  # noqa  (warm imports so that lazy imports of the library are not mistaken for injected ones)
    base = tempfile.mkdtemp(prefix='c16_')
    shutil.rmtree(CANARY_DIR, ignore_errors=True)
    os.makedirs(CANARY_DIR)
    canary = os.path.join(CANARY_DIR, 'pwned_%d' % case['pick'])
    try:
        if case['path'] == 'load':
            root = os.path.join(base, 'k')
            kgen.write_dataset(case['d'], root, 's')
            # warm-up: a benign load, so that first-use imports are done
            try:
                kapture_from_dir(root)
            except Exception:
                pass
            if case.get('big'):
                rc = os.path.join(root, 'sensors', 'records_camera.txt')
                rows = [l for l in open(rc).read().split('\n') if l.strip() and not l.startswith('#')]
                if rows:
                    dev = rows[0].split(',')[1].strip()
                    with open(rc, 'a') as f:
                        f.write('\n' + '\n'.join(f'{10 ** 7 + i}, {dev}, big/{i // 100:03d}/{i:06d}.jpg' for i in range(case['big'])) + '\n')
            # the large datasets are loaded as they are (no crafted field): the question is what loading them does
            if case.get('big'):
                # ... and hundreds of thousands of 3-D points
                pp = os.path.join(root, 'reconstruction', 'points3d.txt')
                if os.path.exists(pp):
                    head = [l for l in open(pp).read().split('\n') if l.startswith('#')]
                    ncol = 6 if any('R' in l for l in head[1:]) else 3
                    with open(pp, 'w') as f:
                        f.write('\n'.join(head) + '\n')
                        row = ','.join(['0.5'] * ncol) + '\n'
                        f.write(row * min(case['big'] * 50, 300000))
            where = mutate_field(root, case, canary) if not case.get('big') else ('sensors/records_camera.txt', 0, -1, False)
            present = text_files(root)
            first = open(os.path.join(root, 'sensors', 'sensors.txt')).readline()
            import re
            m = re.search('# kapture format\\:\\s*(?P<version>\\d+\\.\\d+)', first)
            res['version'] = m['version'] if m else None
            before = c20.read_tree(root)
            err, events = monitored(lambda: kapture_from_dir(root))
            after = c20.read_tree(root)
        else:
            root, _ = c20.tree_10(case['base'], base)
            tmp = os.path.join(base, 'warm')
            shutil.copytree(root, tmp)
            try:
                upgrade_1_0_to_1_1_inplace(tmp, None, None, None, 'L2', 'L2')
            except Exception:
                pass
            where = mutate_field(root, case, canary)
            present = text_files(root)
            before = c20.read_tree(root)
            err, events = monitored(lambda: upgrade_1_0_to_1_1_inplace(root, None, None, None, 'L2', 'L2'))
            after = c20.read_tree(root) if os.path.isdir(root) else {}
        res.update({'where': list(where), 'written_field': None if case.get('big') else _written[0], 'present': present, 'error': err,
                    'before': before, 'after': after,
                    'canary_hit': bool(os.listdir(CANARY_DIR)), 'root': root})
        # canonical events
        ev = []
        for name, args in events:
            if name == 'open':
                mode = args[1] if len(args) > 1 else None
                flags = args[2] if len(args) > 2 else 0
                writing = (isinstance(mode, str) and any(c in mode for c in 'wax+')) or \
                    (isinstance(flags, int) and flags & (os.O_WRONLY | os.O_RDWR | os.O_CREAT | os.O_TRUNC | os.O_APPEND))
                ev.append(['write' if writing else 'read', rel_to(root, args[0]), str(args[0])[:120]])
            elif name in ('os.remove', 'os.rmdir', 'shutil.rmtree', 'os.mkdir', 'os.chmod', 'os.truncate'):
                ev.append([name, rel_to(root, args[0]), str(args[0])[:120]])
            elif name in ('os.rename', 'shutil.move', 'shutil.copyfile', 'os.symlink', 'os.link'):
                ev.append([name, rel_to(root, args[0]), rel_to(root, args[1]), str(args[:2])[:160]])
            else:
                ev.append([name, None, str(args)[:200]])
        res['events'] = ev
    finally:
        shutil.rmtree(base, ignore_errors=True)
        shutil.rmtree(CANARY_DIR, ignore_errors=True)
    _cache[k] = res
    return res


def run_impl(case):
    r = run_real(case)
    if case['path'] == 'dtype':
        return {'dtype': r['dtype']}
    reads = sorted({e[1] for e in r['events'] if e[0] == 'read' and e[1] and e[1].endswith('.txt')})
    if case['path'] == 'load':
        return {'reads': reads, 'error': r['error']}
    eff = []
    for e in r['events']:
        if e[0] == 'write' and e[1] and (e[1].endswith('.txt')):
            eff.append(['write', e[1]])
        elif e[0] == 'os.remove' and e[1]:
            eff.append(['remove', e[1]])
        elif e[0] == 'shutil.move' and e[1] and e[2]:
            eff.append(['move', e[1], e[2]])
    return {'effects': eff, 'error': r['error']}


def to_model(case):
    r = run_real(case)
    if case['path'] == 'dtype':
        return [{'op': 'dtype', 'names': r['names']}]
    if case['path'] == 'load':
        return [{'op': 'load', 'present': r['present'], 'current': r['version'] == '1.1'}]
    ids = {}
    tree = []
    for rel, c in sorted(r['before'].items()):
        tree.append([rel, c if c[0] == 't' else ['b', ids.setdefault(c[1], len(ids) + 1)]])
    return [{'op': 'upgrade', 'params': case['base']['params'], 'tree': tree}]


def compare(case, io_, mo):
    mo = mo[0]
    if case['path'] == 'dtype':
        if io_['dtype'] != mo.get('results'):
            bad = [(n, a, b) for n, a, b in zip(run_real(case)['names'], io_['dtype'], mo.get('results', [])) if a != b]
            return f'dtype_from_name vs table: {bad[:4]}'
        return None
    if case['path'] == 'load':
        if io_['error']:
            # a failed load stops early: what it opened must be a subset of what a full load opens
            want = {e[1] for e in mo['reads']}
            extra = [p for p in io_['reads'] if p not in want]
            return f'files opened outside the modelled set: {extra}' if extra else None
        want = sorted({e[1] for e in mo['reads']})
        # records_gnss.txt is only opened when a gnss sensor is declared (the model over-approximates that one file)
        if [p for p in io_['reads'] if p not in want] or [p for p in want if p not in io_['reads'] and p != 'sensors/records_gnss.txt']:
            return f'files opened: impl {io_["reads"]} model {want}'
        return None
    if 'error' in mo or io_['error']:
        if io_['error'] and 'error' in mo:
            # a 1.0 descriptor file without a usable data line is refused either by `list(table)[0]` (IndexError: no line)
            # or by `assert len(line) == 3` (AssertionError: wrong width): one family, "malformed descriptor file"
            fam = {'IndexError': 'AssertionError'}
            return None if fam.get(io_['error'], io_['error']) == fam.get(mo['error'], mo['error']) \
                else f'upgrade errors: impl {io_["error"]} model {mo["error"]}'
        if io_['error'] and 'error' not in mo:
            # the implementation stopped somewhere in the plan: its effects must be a prefix-compatible subset
            want = [e for e in mo['effects'] if e[0] != 'read']
            extra = [e for e in io_['effects'] if e not in want]
            return f'effects outside the plan: {extra[:3]}' if extra else None
        return f'upgrade errors: impl {io_["error"]} model {mo.get("error")}'
    want = [e for e in mo['effects'] if e[0] != 'read']
    if sorted(map(tuple, io_['effects'])) != sorted(map(tuple, want)):
        a, b = sorted(map(tuple, io_['effects'])), sorted(map(tuple, want))
        return f'upgrade effects: impl-only {[e for e in a if e not in b][:3]} model-only {[e for e in b if e not in a][:3]}'
    return None


def oracle(case):
    r = run_real(case)
    if case['path'] == 'dtype':
        for n, o in zip(r['names'], r['dtype']):
            if o == 'SIDE-EFFECT' or o.startswith('error:'):
                return {'signature': 'dtype-evaluated', 'detail': f'dtype_from_name({n!r}) -> {o}'}
            if o.startswith('ok:') and any(ch in n for ch in "()[]'\";= "):
                return {'signature': 'dtype-accepts-expression', 'detail': f'{n!r} accepted as {o}'}
        return None
    where = r['where']
    tag = f'{case["path"]} with {where[0]} line {where[1]} col {where[2]} := {case["payload"][:40]!r}'
    if r['canary_hit']:
        return {'signature': 'field-executed', 'detail': f'canary side effect: {tag}'}
    payload_head = case['payload'].split('{')[0][:12]
    for e in r['events']:
        name = e[0]
        if name in ('compile', 'exec'):
            return {'signature': 'evaluates-content', 'detail': f'{name} event during {tag}: {e[-1][:120]}'}
        if name in ('os.system', 'subprocess.Popen', 'os.exec', 'os.posix_spawn', 'os.fork') or name.startswith('socket.') \
                or name in ('urllib.Request', 'ctypes.dlopen'):
            return {'signature': 'spawns-or-connects', 'detail': f'{name} during {tag}'}
        if name == 'import':
            return {'signature': 'imports', 'detail': f'import {e[-1][:80]} during {tag}'}
        if case['path'] == 'load':
            if name != 'read':
                return {'signature': 'load-modifies', 'detail': f'{name} {e[-1][:100]} during {tag}'}
            if e[1] is None:
                return {'signature': 'load-reads-outside', 'detail': f'opened {e[-1][:100]} during {tag}'}
        else:
            if name == 'read':
                if e[1] is None:
                    return {'signature': 'upgrade-reads-outside', 'detail': f'opened {e[-1][:100]} during {tag}'}
                continue
            inside = all(x is not None for x in e[1:-1])
            if not inside:
                return {'signature': 'upgrade-writes-outside', 'detail': f'{name} {e[-1][:140]} during {tag}'}
    if case['path'] == 'load' and r['before'] != r['after']:
        return {'signature': 'load-modifies', 'detail': f'directory changed during {tag}'}
    fname = where[0].split('/')[-1]
    if case['path'] == 'load' and r['error'] is None and where[2] in NUMERIC_COLS.get(fname, []) and where[2] >= 0:
        written = r.get('written_field')
        # a text starting with # in the FIRST column makes the whole line a comment: nothing to report
        pose_file = fname in ('trajectories.txt', 'rigs.txt')
        if written is not None and not valid_number(written, is_integer_col(fname, where[2])) \
                and not (written == '' and where[2] >= 2 and pose_file) and not (where[2] == 0 and written.startswith('#')):
            return {'signature': 'invalid-number-accepted', 'detail': f'{tag} ({written[:60]!r} is no number) loaded without error'}
    if where[3] and case['path'] == 'load' and r['error'] is None:
        from_table = case['pclass'] == 'name'
        if not from_table:
            return {'signature': 'invalid-dtype-accepted', 'detail': f'{tag} loaded without error'}
    return None


def nontrivial(case):
    if case['path'] == 'dtype':
        return 'dtype-pool'
    r = run_real(case)
    return json.dumps([case['path'], r['where'][0].split('/')[-1], r['where'][2], case['pclass']])


def distribution(cases_):
    d = {}
    for c in cases_:
        d['path:' + c['path']] = d.get('path:' + c['path'], 0) + 1
        if 'pclass' in c:
            d['payload:' + c['pclass']] = d.get('payload:' + c['pclass'], 0) + 1
    return d
