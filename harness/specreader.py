"""
specreader.py — an independent reader of the kapture 1.1 text files, written from kapture_format.adoc ALONE
(sections "Text files", "sensors/", "reconstruction/").  It imports nothing from kapture.

Rules transcribed from the specification:
  * utf-8; first line `# kapture format: 1.1`; comma separated values, spaces around commas ignored;
    lines starting with `#` and lines containing only blank characters are ignored;
  * sensors.txt        : sensor_device_id, name, sensor_type, [sensor_params]+
  * rigs.txt           : rig_device_id, sensor_device_id, qw, qx, qy, qz, tx, ty, tz
  * trajectories.txt   : timestamp, device_id, qw, qx, qy, qz, tx, ty, tz
  * records_camera/depth/lidar.txt : timestamp, device_id, path
  * records_gnss.txt   : timestamp, device_id, x, y, z, utc, dop
  * records_wifi.txt   : timestamp, device_id, BSSID, frequency, RSSI, SSID, scan_time_start, scan_time_end
  * records_bluetooth.txt : timestamp, device_id, address, RSSI, name
  * records_accelerometer/gyroscope/magnetic.txt : timestamp, device_id, 3 floats
  * keypoints.txt : name, dtype, dsize ; descriptors.txt : name, dtype, dsize, keypoints_type, metric_type ;
    global_features.txt : name, dtype, dsize, metric_type
  * points3d.txt : X, Y, Z, [R, G, B] (second line tells whether colours are present)
  * observations.txt : point3d_id, keypoints_type, [image_path, feature_id]*
returns the same description shape as kgen.describe (floats as float.hex()).
"""
import os

BLANKS = ' \t\r\n\x0b\x0c'


def read_rows(path):
    with open(path, 'rb') as f:
        text = f.read().decode('utf-8')
    rows = []
    for line in text.replace('\r\n', '\n').replace('\r', '\n').split('\n'):
        if line.startswith('#') or line.strip() == '':
            continue
        rows.append([field.strip() for field in line.split(',')])
    return rows


def version_of(path):
    with open(path, 'rb') as f:
        first = f.read().decode('utf-8').split('\n')[0]
    prefix = '# kapture format:'
    return first[len(prefix):].strip() if first.startswith(prefix) else None


def H(tok):
    return float(tok).hex()


def pose(tokens):
    r, t = tokens[0:4], tokens[4:7]
    return {'r': None if any(x == '' for x in r) else [H(x) for x in r],
            't': None if any(x == '' for x in t) else [H(x) for x in t]}


def read_dataset(root):
    d = {}

    def p(*parts):
        return os.path.join(root, *parts)

    def opt(rel, fn):
        return fn(read_rows(p(*rel))) if os.path.exists(p(*rel)) else None
    d['version'] = version_of(p('sensors', 'sensors.txt'))
    d['sensors'] = {r[0]: {'name': r[1], 'type': r[2], 'params': r[3:]} for r in read_rows(p('sensors', 'sensors.txt'))}

    def rigs(rows):
        out = {}
        for r in rows:
            out.setdefault(r[0], {})[r[1]] = pose(r[2:9])
        return out
    d['rigs'] = opt(('sensors', 'rigs.txt'), rigs)
    d['trajectories'] = opt(('sensors', 'trajectories.txt'),
                            lambda rows: sorted([[int(r[0]), r[1], pose(r[2:9])] for r in rows], key=lambda e: (e[0], e[1])))
    for kind in ('camera', 'depth', 'lidar'):
        d['records_' + kind] = opt(('sensors', f'records_{kind}.txt'),
                                   lambda rows: sorted([[int(r[0]), r[1], r[2]] for r in rows], key=lambda e: (e[0], e[1])))
    d['records_gnss'] = opt(('sensors', 'records_gnss.txt'),
                            lambda rows: sorted([[int(r[0]), r[1], [H(r[2]), H(r[3]), H(r[4]), int(r[5]), H(r[6])]] for r in rows],
                                                key=lambda e: (e[0], e[1])))
    for kind in ('accelerometer', 'gyroscope', 'magnetic'):
        d['records_' + kind] = opt(('sensors', f'records_{kind}.txt'),
                                   lambda rows: sorted([[int(r[0]), r[1], [H(x) for x in r[2:5]]] for r in rows],
                                                       key=lambda e: (e[0], e[1])))

    def wifi(rows):
        out = {}
        for r in rows:
            out.setdefault((int(r[0]), r[1]), {})[r[2]] = [int(r[3]), H(r[4]), r[5], int(r[6]), int(r[7])]
        return sorted([[ts, dev, sig] for (ts, dev), sig in out.items()], key=lambda e: (e[0], e[1]))
    d['records_wifi'] = opt(('sensors', 'records_wifi.txt'), wifi)

    def bt(rows):
        out = {}
        for r in rows:
            out.setdefault((int(r[0]), r[1]), {})[r[2]] = [H(r[3]), r[4]]
        return sorted([[ts, dev, sig] for (ts, dev), sig in out.items()], key=lambda e: (e[0], e[1]))
    d['records_bluetooth'] = opt(('sensors', 'records_bluetooth.txt'), bt)
    for kind, ext, fields in (('keypoints', '.kpt', ['dtype', 'dsize']),
                              ('descriptors', '.desc', ['dtype', 'dsize', 'keypoints_type', 'metric_type']),
                              ('global_features', '.gfeat', ['dtype', 'dsize', 'metric_type'])):
        kdir = p('reconstruction', kind)
        d[kind] = None
        if os.path.isdir(kdir):
            coll = {}
            for ty in sorted(os.listdir(kdir)):
                cfg = os.path.join(kdir, ty, kind + '.txt')
                if not os.path.isfile(cfg):
                    continue
                row = read_rows(cfg)[0]
                entry = {'dsize' if f == 'dsize' else f: (int(v) if f == 'dsize' else v) for f, v in zip(fields, row[1:])}
                entry['name'] = row[0]
                tdir = os.path.join(kdir, ty)
                entry['images'] = sorted(os.path.relpath(os.path.join(dp, fn), tdir)[:-len(ext)]
                                         for dp, _, fns in os.walk(tdir) for fn in fns if fn.endswith(ext))
                coll[ty] = entry
            d[kind] = coll or None
    mdir = p('reconstruction', 'matches')
    d['matches'] = None
    if os.path.isdir(mdir):
        coll = {}
        for ty in sorted(os.listdir(mdir)):
            tdir = os.path.join(mdir, ty)
            if not os.path.isdir(tdir):
                continue
            pairs = []
            for dp, _, fns in os.walk(tdir):
                for fn in fns:
                    if fn.endswith('.matches'):
                        rel = os.path.relpath(os.path.join(dp, fn), tdir)[:-len('.matches')]
                        a, b = rel.split('.overlapping/')
                        pairs.append([a, b])
            coll[ty] = sorted(pairs)
        d['matches'] = coll or None
    pp = p('reconstruction', 'points3d.txt')
    d['points3d'] = None
    if os.path.exists(pp):
        with open(pp, 'rb') as f:
            lines = f.read().decode('utf-8').replace('\r\n', '\n').replace('\r', '\n').split('\n')
        cols = 6 if (len(lines) > 1 and 'R, G, B' in lines[1]) else 3
        rows = [[H(x) for x in r] for r in read_rows(pp)]
        d['points3d'] = {'cols': cols if not rows else len(rows[0]), 'rows': rows}

    def obs(rows):
        out = []
        for r in rows:
            for img, fid in zip(r[2::2], r[3::2]):
                out.append([int(r[0]), r[1], img, int(fid)])
        return sorted(out)
    d['observations'] = opt(('reconstruction', 'observations.txt'), obs)
    return d
