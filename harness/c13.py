"""
C13 — COLMAP export then import preserves cameras, poses, features and structure (proof, PARTIAL).

Correspondence: the REAL loop  kapture dir --export_colmap--> colmap.db + cameras/images/points3D.txt --import_colmap-->
kapture  on generated datasets inside COLMAP's expressive range, against Model/C13.lean, at three levels:
  * intermediate state read straight from the SQLite file and points3D.txt (image ids, camera rows, camera of each image,
    pair ids and stored match rows, point ids and tracks) versus the model's export half;
  * the imported dataset by image name (camera, pose, match rows, points, tracks) versus the model's import half; poses as
    rotation matrix + translation against the exact rational model at 1e-9;
  * `image_ids_to_pair_id` / `pair_id_to_image_ids` on ids up to MAX_IMAGE_ID and the camera table, called directly.
Oracle (implementation only, no model, own float arithmetic): by image name, the imported dataset has the same camera model
and parameters, the same pose for posed images (rig-mounted cameras at camera_from_rig o rig_from_world) and none for the
others, bit-identical keypoints and descriptors, the same match index pairs for every pair, the same 3-D points and the same
(point, image name, feature index) observations.
"""
import hashlib
import json
import math
import os
import shutil
import sqlite3
import tempfile
from fractions import Fraction

import numpy as np

import kgen

ID = 'C13'
TITLE = 'COLMAP export then import preserves cameras, poses, features and structure'
GEN = ['PairId', 'ColmapCameras']
RULE = ('each case = one generated dataset inside COLMAP\'s range: 1..3 cameras over the 11 COLMAP models (integer image '
        'sizes), optional sensors that take no picture (a depth sensor still gets a colmap camera id), 0..3 rigs forming a forest (rigs on rigs), trajectories on cameras and rigs '
        'without double posing, 1..7 images with unique names (sub-directories, spaces, non-ASCII) drawn so that image-id '
        'order differs from name order, some images without pose, one keypoints type (float32, 2/4/6 columns, 0..4 rows, '
        'special values), uint8 descriptors, matches with integer-valued asymmetric index pairs (up to 2^32-1) and 0..5 '
        'rows, 0..8 points with 3 or 6 columns, observations on posed images; plus 4 random id pairs up to MAX_IMAGE_ID '
        'per case; distinct non-trivial = distinct cases with a match pair stored with swapped columns or a rig-posed image')
ASSUMPTIONS = [
    'a pose is a full rigid pose (rotation and translation present): COLMAP has no partial poses',
    'no camera gets a pose from two sources at one timestamp (directly and through a rig): "the pose of an image" is then '
    'unambiguous; rig nesting depth is below the code\'s max_depth = 10',
    'observations are made by images that have a pose: a COLMAP reconstruction lists registered images only, the import '
    'names any other observing image "unknown" (theorem track_of_unposed_image_is_unknown states this boundary)',
    'image sizes are integers, colours are integers in 0..255, match indices fit uint32, image names hold no comma, no '
    'double space and do not start with "#" (COLMAP\'s text format)',
    'datasets WITHOUT a trajectories part (15% of the cases) are judged by the oracle only, not by the model: before the fix: '
    'commits 053a33d / da7c1e5 they could not be looped (import asserted on the missing images.txt; with rigs the export '
    'asserted); signatures raises:import:AssertionError / raises:export:AssertionError',
    'IEEE rounding is not modelled: poses are compared with the exact rational model at 1e-9 (rotation matrix entries '
    'absolute, translation relative to the magnitudes involved)',
    'an all-empty keypoints / descriptors set comes back with the importer\'s default width; row counts are compared',
]
TRUSTED = ['kgen.py build() and the real kapture_to_dir writer for the input dataset', 'sqlite3 and numpy used to read the '
           'database and feature files independently of the converter']
PARTIAL = ('the theorems cover the discrete plumbing and arithmetic core (camera table, id assignment, generated pair-id '
           'arithmetic, match column swap, points/tracks, world pose of rig-mounted cameras) and the TEXT layer of the '
           'reconstruction files (tokens joined by single blanks and tokenised back, image names of several words, the '
           'two-lines-per-image layout of images.txt and the importer\'s first pass over it: Model/C13Text.lean, tied byte for '
           'byte to the files written); SQLite, numpy blobs, float printing and parsing and the csv loader are exercised by the '
           'full export -> import loops only')

INCLUDE_REPORTED = os.environ.get('C13_REPORTED', '1') == '1'
TOL = Fraction(1, 10 ** 9)
COLMAP_MODELS = {'SIMPLE_PINHOLE': 3, 'PINHOLE': 4, 'SIMPLE_RADIAL': 4, 'RADIAL': 5, 'OPENCV': 8, 'OPENCV_FISHEYE': 8,
                 'FULL_OPENCV': 12, 'FOV': 5, 'SIMPLE_RADIAL_FISHEYE': 4, 'RADIAL_FISHEYE': 5, 'THIN_PRISM_FISHEYE': 12}
H, F = kgen.H, kgen.F
_cache = {}


# ------------------------------------------------------------------------------------------------------- generator

F32_SPECIALS = [0.0, -0.0, 1.0, -1.5, 1e-45, 3.4028234663852886e+38, 0.1, 123456.789, 16777217.0, 1e-20]


def gen_f32_bits(rng):
    x = rng.random()
    if x < 0.25:
        return int(np.array(rng.choice(F32_SPECIALS), dtype='<f4').view('<u4'))
    if x < 0.7:
        return int(np.array(rng.uniform(0, 2000), dtype='<f4').view('<u4'))
    while True:
        b = rng.getrandbits(32)
        if (b >> 23) & 0xFF != 0xFF:      # finite
            return b


def gen_param(rng):
    v = rng.choice([float(rng.randint(1, 2000)), rng.uniform(0, 1000), 0.0, -0.012345678901234567, 1e-7, rng.gauss(0, 1),
                    # values whose repr is in exponent notation, exponents ending in 0 included; large and tiny magnitudes
                    2.5e-10, 4.75e-20, -3e-100, rng.uniform(1, 10) * 10.0 ** rng.choice([-30, -20, -11, -10, -9, -5]), 1.5e300])
    return str(int(v)) if float(v).is_integer() and abs(v) < 1e15 else repr(float(v))


def gen_full_pose(rng):
    p = kgen.gen_pose(rng, partial=False)
    if rng.random() < 0.2:                         # non-unit quaternion: the same rotation
        s = rng.choice([0.5, 2.0, -1.0, 3.0, -0.25])
        p['r'] = [H(F(h) * s) for h in p['r']]
    return p


def gen_index(rng):
    return rng.choice([rng.randrange(0, 50), rng.randrange(0, 50), rng.randrange(0, 5000), 2 ** 32 - 1 - rng.randrange(3),
                       2 ** 24 + 1])


def gen_case(rng, tier):
    tails = ['', '', '', ' x', 'é', '-0', '_b.c']
    sensors = {}
    ncam = rng.randint(1, 3)
    ids = rng.sample(range(6), ncam + 2)
    cams = []
    for k in ids[:ncam]:
        sid = f'cam_{k}{rng.choice(tails)}'
        model = rng.choice(list(COLMAP_MODELS))
        w, h = rng.choice([(640, 480), (1920, 1080), (1, 1), (4000, 3000), (848, 800)])
        sensors[sid] = {'type': 'camera',
                        'params': [model, str(w), str(h)] + [gen_param(rng) for _ in range(COLMAP_MODELS[model])],
                        'name': rng.choice([None, '', 'my cam'])}
        cams.append(sid)
    for k in ids[ncam:]:
        if rng.random() < 0.4:
            # sensors that take no picture: a depth sensor is a camera for the export (it gets a colmap camera id)
            kind = rng.choice(['gnss', 'lidar', 'wifi', 'gyroscope', 'depth', 'depth'])
            sid = f'{kind[:3]}_{k}'
            if kind == 'depth':
                model = rng.choice(list(COLMAP_MODELS))
                params = [model, '320', '240'] + [gen_param(rng) for _ in range(COLMAP_MODELS[model])]
            else:
                params = ['EPSG:4326'] if kind == 'gnss' else []
            sensors[sid] = {'type': kind, 'params': params, 'name': None}
    order = list(sensors)
    rng.shuffle(order)
    sensors = {s: sensors[s] for s in order}

    # rigs: a forest over the sensors (each device has at most one parent)
    rigs = None
    parent = {}
    if rng.random() < 0.6:
        rigs = {}
        free = list(sensors)
        rng.shuffle(free)
        for r in range(rng.randint(1, 3)):
            rid = f'rig{r}{rng.choice(["", "", " b"])}'
            members = {}
            for _ in range(rng.randint(1, 3)):
                if free:
                    m = free.pop(rng.randrange(len(free)))
                    members[m] = gen_full_pose(rng)
                    parent[m] = rid
            if members:
                rigs[rid] = members
                if rng.random() < 0.6:
                    free.append(rid)            # may become a member of a later rig
        if not rigs:
            rigs = None

    def leaves(dev):
        if rigs and dev in rigs:
            out = set()
            for m in rigs[dev]:
                out |= leaves(m)
            return out
        return {dev}

    devices = list(sensors) + list(rigs or {})
    stamps = sorted(rng.sample(range(0, 40), rng.randint(1, 5)))
    traj = []
    for ts in stamps:
        covered = set()
        cand = list(devices)
        rng.shuffle(cand)
        for dev in cand[:rng.choice([0, 1, 2, 3, len(cand), len(cand)])]:
            lv = leaves(dev)
            if lv & covered:
                continue
            covered |= lv
            traj.append([ts, dev, gen_full_pose(rng)])
    # images: unique names, not in timestamp order
    slots = [(ts, c) for ts in stamps + [rng.randint(41, 60)] for c in cams]
    rng.shuffle(slots)
    posed_slots = set()
    for ts, dev, _ in traj:
        posed_slots |= {(ts, c) for c in leaves(dev)}
    slots = ([sl for sl in slots if rng.random() < (0.8 if sl in posed_slots else 0.25)] or slots[:1])[:7]
    rng.shuffle(slots)
    numbers = rng.sample(range(30), len(slots))
    records = []
    for (ts, c), k in zip(slots, numbers):
        sub = rng.choice(['', '', 'seq a/', 'cam0/sub.dir/', 'ünï/', 'z/'])
        records.append([ts, c, f'{sub}img{k:02d}.jpg'])
    names = [r[2] for r in records]

    case = {'sensors': sensors, 'rigs': rigs, 'trajectories': traj, 'records_camera': records,
            'kp': None, 'desc': None, 'matches': None, 'points3d': None, 'observations': None}
    if INCLUDE_REPORTED and rng.random() < 0.15:
        case['trajectories'] = None
    ktype = rng.choice(['sift', 'r2d2', 'SIFT', 'd2_net'])
    kp_images = []
    if rng.random() < 0.85:
        dsize = rng.choice([2, 4, 6])
        kp_images = sorted(rng.sample(names, rng.randint(1, len(names))))
        all_empty = rng.random() < 0.05
        case['kp'] = {'type': ktype, 'dsize': dsize,
                      'data': {n: [[gen_f32_bits(rng) for _ in range(dsize)] for _ in range(0 if all_empty else rng.randint(0, 4))]
                               for n in kp_images}}
        if rng.random() < 0.7:
            ds = rng.choice([1, 3, 8, 128])
            dimgs = sorted(rng.sample(kp_images, rng.randint(1, len(kp_images))))
            case['desc'] = {'type': rng.choice([ktype, 'brief']), 'dsize': ds,
                            'data': {n: [[rng.randrange(256) for _ in range(ds)] for _ in range(len(case['kp']['data'][n]))]
                                     for n in dimgs}}
    mimgs = kp_images if kp_images else names
    if len(mimgs) >= 2 and rng.random() < 0.85:
        pairs = set()
        for _ in range(rng.randint(1, 6)):
            a, b = rng.sample(mimgs, 2)
            pairs.add((min(a, b), max(a, b)))
        ms = []
        for a, b in sorted(pairs):
            rows = []
            for _ in range(rng.randint(0, 5)):
                i = gen_index(rng)
                j = gen_index(rng)
                rows.append([i, j, H(rng.choice([0.0, 1.0, rng.random()]))])
            ms.append([a, b, rows])
        case['matches'] = {'type': ktype, 'pairs': ms}
    if rng.random() < 0.8:
        cols = rng.choice([3, 6])
        rows = []
        for _ in range(rng.choice([0, 1, 3, 8])):
            row = [H(rng.choice([rng.uniform(-100, 100), float(rng.randint(-9, 9)), 0.1234567890123, 1e5 / 3,
                                 kgen.gen_float(rng, specials=True)])) for _ in range(3)]
            if cols == 6:
                row += [H(float(rng.randrange(256))) for _ in range(3)]
            rows.append(row)
        case['points3d'] = {'cols': cols, 'rows': rows}
        posed = posed_names(case)
        obs_imgs = [n for n in kp_images if n in posed]
        if rows and obs_imgs and rng.random() < 0.85:
            seen = set()
            for _ in range(rng.randint(0, 10)):
                e = (rng.randrange(len(rows)), rng.choice(obs_imgs), rng.randrange(60))
                seen.add(e)
            case['observations'] = sorted([list(e) for e in seen]) or None
    case['pairs'] = [[rng.choice([rng.randint(1, 2 ** 31 - 2), rng.randint(1, 50), 2 ** 31 - 2, 1]),
                      rng.choice([rng.randint(1, 2 ** 31 - 2), rng.randint(1, 50), 2 ** 31 - 2, 1])] for _ in range(4)]
    return case


def cases(rng, tier):
    n = 300 if tier == 'quick' else 3000
    return [gen_case(rng, tier) for _ in range(n)]


# ------------------------------------------------------------------------------------------------------- case helpers

def key_of(case):
    return hashlib.sha256(json.dumps(case, sort_keys=True).encode()).hexdigest()


def chain_poses(case):
    """ {(ts, device): [pose, pose, ...]} the mounting chain (innermost member first, posed device last) of every device
    that ends up with a pose after rig removal; harness bookkeeping shared by the generator and nontrivial() only """
    rigs = case['rigs'] or {}
    out = {}

    def descend(ts, dev, chain, depth):
        if dev in rigs and depth < 10:
            for m, p in rigs[dev].items():
                descend(ts, m, [p] + chain, depth + 1)
        else:
            out[(ts, dev)] = chain
    for ts, dev, p in case['trajectories'] or []:
        descend(ts, dev, [p], 0)
    return out


def posed_names(case):
    ch = chain_poses(case)
    return {n for ts, c, n in case['records_camera'] if (ts, c) in ch}


def description(case):
    d = {p: None for p in kgen.PART_NAMES}
    d['sensors'] = case['sensors']
    d['rigs'] = case['rigs']
    d['trajectories'] = case['trajectories']
    d['records_camera'] = case['records_camera']
    if case['kp']:
        d['keypoints'] = {case['kp']['type']: {'dtype': 'float32', 'dsize': case['kp']['dsize'], 'images': sorted(case['kp']['data'])}}
    if case['desc']:
        d['descriptors'] = {case['desc']['type']: {'dtype': 'uint8', 'dsize': case['desc']['dsize'],
                                                   'keypoints_type': case['kp']['type'], 'metric_type': 'L2',
                                                   'images': sorted(case['desc']['data'])}}
    if case['matches']:
        d['matches'] = {case['matches']['type']: [[a, b] for a, b, _ in case['matches']['pairs']]}
    d['points3d'] = case['points3d']
    if case['observations']:
        d['observations'] = [[i, case['kp']['type'], n, k] for i, n, k in case['observations']]
    return d


def write_inputs(case, root):
    """ the dataset on disk: csv files through the real writer, feature files with numpy directly """
    import kapture.io.features as kf
    from kapture.io.csv import kapture_to_dir
    os.makedirs(root, exist_ok=True)
    kapture_to_dir(root, kgen.build(description(case)))
    if case['points3d']:
        # the csv writer rounds coordinates to 10 decimals (fmt='%.10f'): write the cloud at full precision instead, so
        # that the dataset on disk is the dataset of the case
        p = os.path.join(root, 'reconstruction', 'points3d.txt')
        head = [line for line in open(p, encoding='utf-8') if line.startswith('#')]
        with open(p, 'w', encoding='utf-8') as f:
            f.writelines(head)
            for row in case['points3d']['rows']:
                f.write(', '.join(repr(F(h)) for h in row) + '\n')
    if case['kp']:
        for n, rows in case['kp']['data'].items():
            p = kf.get_keypoints_fullpath(case['kp']['type'], root, n)
            os.makedirs(os.path.dirname(p), exist_ok=True)
            np.array(rows, dtype='<u4').reshape((-1, case['kp']['dsize'])).view('<f4').tofile(p)
    if case['desc']:
        for n, rows in case['desc']['data'].items():
            p = kf.get_descriptors_fullpath(case['desc']['type'], root, n)
            os.makedirs(os.path.dirname(p), exist_ok=True)
            np.array(rows, dtype=np.uint8).reshape((-1, case['desc']['dsize'])).tofile(p)
    if case['matches']:
        for a, b, rows in case['matches']['pairs']:
            p = kf.get_matches_fullpath((a, b), case['matches']['type'], root)
            os.makedirs(os.path.dirname(p), exist_ok=True)
            np.array([[float(i), float(j), F(s)] for i, j, s in rows], dtype='<f8').reshape((-1, 3)).tofile(p)


def read_db(db_path):
    """ the database as plain data, read with sqlite3 + numpy only """
    con = sqlite3.connect(db_path)
    try:
        out = {'images': [[i, n, c] for i, n, c in con.execute('SELECT image_id, name, camera_id FROM images ORDER BY image_id')],
               'cameras': [[i, m, H(w), H(h), [H(v) for v in np.frombuffer(p, dtype='<f8').tolist()]]
                           for i, m, w, h, p in con.execute('SELECT camera_id, model, width, height, params FROM cameras '
                                                            'ORDER BY camera_id')],
               'matches': [[str(pid), np.frombuffer(data, dtype='<u4').reshape((-1, 2)).tolist() if r else []]
                           for pid, r, c, data in con.execute('SELECT pair_id, rows, cols, data FROM matches ORDER BY pair_id')],
               'keypoints': [[i, r, c] for i, r, c in con.execute('SELECT image_id, rows, cols FROM keypoints ORDER BY image_id')]}
    finally:
        con.close()
    return out


def read_points_txt(path):
    if not os.path.exists(path):
        return None
    lines = []
    for line in open(path, encoding='utf-8'):
        if line.startswith('#') or not line.strip():
            continue
        f = line.split()
        lines.append([int(f[0]), [H(float(v)) for v in f[1:4]], [H(float(v)) for v in f[4:7]],
                      [[int(a), int(b)] for a, b in zip(f[8::2], f[9::2])]])
    return lines


def _rows(path, dtype, width):
    """ the rows of a raw array file under the DECLARED width; a file whose size does not fit it is reported as such (that
    is an output of the code under test, not a harness failure) """
    try:
        arr = np.fromfile(path, dtype=dtype)
    except OSError as e:
        return ['UNREADABLE', type(e).__name__]
    if width <= 0 or arr.size % width:
        return ['UNREADABLE', f'{arr.size} items do not fit rows of {width}']
    return arr.reshape((-1, width)).tolist()


def collect(k2, root, case):
    """ the imported dataset by image name """
    import kapture
    import kapture.io.features as kf
    out = {'images': {}, 'keypoints': None, 'descriptors': None, 'matches': None}
    for ts, cam, name in kapture.flatten(k2.records_camera):
        s = k2.sensors[cam]
        pose = None
        if k2.trajectories is not None and (ts, cam) in k2.trajectories:
            p = k2.trajectories[ts, cam]
            pose = None if p.r is None or p.t is None else [H(v) for v in p.r_raw + p.t_raw]
        if name in out['images']:
            out['images'][name] = 'DUPLICATE'
            continue
        out['images'][name] = {'id': ts, 'model': s.sensor_params[0], 'params': [H(float(v)) for v in s.sensor_params[1:]],
                               'pose': pose}
    if k2.keypoints:
        out['keypoints'] = {}
        for t, kps in k2.keypoints.items():
            out['keypoints'][t] = {'dtype': kgen.dtype_name(kps.dtype), 'dsize': kps.dsize, 'data': {
                n: _rows(kf.get_keypoints_fullpath(t, root, n), '<u4', kps.dsize) for n in kps}}
    if k2.descriptors:
        out['descriptors'] = {}
        for t, ds in k2.descriptors.items():
            out['descriptors'][t] = {'dtype': kgen.dtype_name(ds.dtype), 'dsize': ds.dsize, 'data': {
                n: _rows(kf.get_descriptors_fullpath(t, root, n), np.uint8, ds.dsize) for n in ds}}
    if k2.matches:
        out['matches'] = {}
        for t, ms in k2.matches.items():
            out['matches'][t] = [[a, b, [[H(v) for v in row] for row in
                                         np.fromfile(kf.get_matches_fullpath((a, b), t, root), dtype='<f8').reshape((-1, 3)).tolist()]]
                                 for a, b in sorted(ms)]
    pts = None
    if k2.points3d is not None:
        arr = np.asarray(k2.points3d)
        pts = {'cols': int(arr.shape[1]) if arr.ndim == 2 else 0, 'rows': [[H(v) for v in row] for row in arr.tolist()]}
    out['points3d'] = pts
    out['observations'] = None if k2.observations is None else sorted(
        [[idx, t, n, k] for idx, t, (n, k) in kapture.flatten(k2.observations)])
    return out


def run_real(case):
    k = key_of(case)
    if k not in _cache:
        _cache.clear()
        _cache[k] = _run_real(case)
    return _cache[k]


def _run_real(case):
    from kapture.converter.colmap.export_colmap import export_colmap
    from kapture.converter.colmap.import_colmap import import_colmap
    from kapture.converter.colmap import database
    base = tempfile.mkdtemp(prefix='c13_')
    res = {'error': None, 'stage': None, 'detail': None}
    try:
        res['pairs'] = []
        for a, b in case.get('pairs', []):
            pid = database.image_ids_to_pair_id(a, b)
            res['pairs'].append([str(pid), [str(v) for v in database.pair_id_to_image_ids(pid)]])
        kin = os.path.join(base, 'in')
        write_inputs(case, kin)
        db = os.path.join(base, 'colmap', 'colmap.db')
        rec = os.path.join(base, 'colmap', 'reconstruction')
        try:
            export_colmap(kin, db, rec, None, None, None, True)
        except Exception as e:
            res.update({'error': type(e).__name__, 'stage': 'export', 'detail': str(e)[:200]})
            return res
        res['db'] = read_db(db)
        res['lines'] = read_points_txt(os.path.join(rec, 'points3D.txt'))
        res['files'] = sorted(os.listdir(rec))
        res['text'] = {}
        for fn in ('cameras.txt', 'images.txt', 'points3D.txt'):
            fp = os.path.join(rec, fn)
            if os.path.isfile(fp):
                with open(fp, encoding='utf-8', newline='') as fh:
                    res['text'][fn] = fh.read()
        kout = os.path.join(base, 'out')
        ktype = (case['kp'] or case['matches'] or {'type': 'SIFT'})['type']
        dtype = (case['desc'] or {'type': 'SIFT'})['type']
        try:
            k2 = import_colmap(kout, db, rec, None, None, ktype, dtype, False, False, True)
        except Exception as e:
            res.update({'error': type(e).__name__, 'stage': 'import', 'detail': str(e)[:200]})
            return res
        res['out'] = collect(k2, kout, case)
        return res
    finally:
        shutil.rmtree(base, ignore_errors=True)


def run_impl(case):
    r = run_real(case)
    if r['error']:
        return {'error': r['error'], 'stage': r['stage']}
    return {'db': r['db'], 'lines': r['lines'], 'out': r['out'], 'pairs': r['pairs'], 'text': r.get('text')}


# ------------------------------------------------------------------------------------------------------- model side

def tok(s):
    return H(float(s))


def rat(h):
    fr = Fraction(F(h))
    return f'{fr.numerator}/{fr.denominator}'


def unrat(s):
    n, d = s.split('/')
    return Fraction(int(n), int(d))


def camera_sensors(case):
    return [(sid, s) for sid, s in case['sensors'].items() if s['type'] in ('camera', 'depth')]


def tracks_of(case):
    n = len(case['points3d']['rows']) if case['points3d'] else 0
    tr = [[] for _ in range(n)]
    for i, name, k in case['observations'] or []:
        tr[i].append([name, k])
    return tr


def to_model(case):
    pts = []
    if case['points3d']:
        pts = [[row, tr] for row, tr in zip(case['points3d']['rows'], tracks_of(case))]
    req = {'op': 'loop',
           'cameras': [[sid, s['params'][0], [tok(v) for v in s['params'][1:]]] for sid, s in camera_sensors(case)],
           'records': case['records_camera'],
           'matches': [[a, b, [[i, j] for i, j, _ in rows]] for a, b, rows in (case['matches'] or {'pairs': []})['pairs']],
           'points': pts,
           'rigs': [[rid, [[m, [rat(h) for h in p['r'] + p['t']]] for m, p in members.items()]]
                    for rid, members in (case['rigs'] or {}).items()],
           'traj': [[ts, dev, [rat(h) for h in p['r'] + p['t']]] for ts, dev, p in case['trajectories'] or []]}
    reqs = [req, {'op': 'table'}] + [{'op': 'pair', 'a': str(a), 'b': str(b)} for a, b in case.get('pairs', [])]
    return reqs + text_requests(case)


def images_entries(text):
    """ images.txt cut into (n, entries) by plain string operations: comment lines, then two lines per image """
    lines = text.split('\n')
    if lines and lines[-1] == '':
        lines = lines[:-1]
    n = 0
    for l in lines:
        if l.startswith('# NB IMAGES : '):
            n = int(l[len('# NB IMAGES : '):])
    data = [l for l in lines if not l.startswith('#')]
    entries = []
    for i in range(0, len(data) - 1, 2):
        f = data[i].split(' ')
        t = data[i + 1].split(' ') if data[i + 1] else []
        entries.append([int(f[0]), f[1:8], int(f[8]), ' '.join(f[9:]), [t[k:k + 3] for k in range(0, len(t), 3)]])
    return n, entries


def data_lines(text):
    lines = text.split('\n')
    if lines and lines[-1] == '':
        lines = lines[:-1]
    return [l for l in lines if not l.startswith('#')]


def text_requests(case):
    """ the text layer (Model/C13Text.lean) against the files the exporter wrote: the model must render images.txt byte for byte
    from its entries, find the same entries in it, and every line of cameras.txt / points3D.txt must be its tokens joined by
    single blanks """
    r = run_real(case)
    t = r.get('text') or {}
    reqs = []
    if 'images.txt' in t:
        n, entries = images_entries(t['images.txt'])
        reqs.append({'op': 'images_txt', 'n': n, 'entries': entries})
        reqs.append({'op': 'images_pass1', 'text': t['images.txt']})
    for fn in ('cameras.txt', 'points3D.txt'):
        if fn in t:
            ls = data_lines(t[fn])
            reqs.append({'op': 'join', 'lines': [l.split(' ') for l in ls]})
            reqs.append({'op': 'tokens', 'lines': ls})
    return reqs


def compare_text(case, io, mo):
    t = io.get('text') or {}
    k = 0
    if 'images.txt' in t:
        n, entries = images_entries(t['images.txt'])
        if mo[k].get('text') != t['images.txt']:
            a, b = t['images.txt'], mo[k].get('text') or ''
            i = next((j for j in range(min(len(a), len(b))) if a[j] != b[j]), min(len(a), len(b)))
            return f'images.txt: bytes differ at {i}: file {a[max(0, i - 40):i + 40]!r} model {b[max(0, i - 40):i + 40]!r}'
        want = [[e[0], e[1], e[2], e[3]] for e in entries]
        if mo[k + 1].get('images') != want:
            return f'images.txt first pass: file {want[:3]} model {(mo[k + 1].get("images") or [])[:3]}'
        # ... and the importer found the same images: identifier -> name, pose tokens -> the floats it loaded
        out = io.get('out')
        if out is not None:
            for iid, pose, cam, name in want:
                got = out['images'].get(name)
                if not isinstance(got, dict) or got['id'] != iid:
                    return f'images.txt: image {name!r} (id {iid}) imported as {got}'
                if got['pose'] is not None and got['pose'] != [H(float(v)) for v in pose]:
                    return f'images.txt: pose of {name!r}: file tokens {pose} imported {got["pose"]}'
        k += 2
    for fn in ('cameras.txt', 'points3D.txt'):
        if fn in t:
            ls = data_lines(t[fn])
            if mo[k].get('lines') != ls:
                return f'{fn}: a line is not its tokens joined by single blanks: {[l for l, m in zip(ls, mo[k].get("lines") or []) if l != m][:2]}'
            if mo[k + 1].get('tokens') != [l.split() for l in ls]:
                return f'{fn}: tokenisation differs'
            k += 2
    return None


def rot_exact(q):
    """ rotation matrix of a (not necessarily unit) quaternion, exactly """
    w, x, y, z = q
    n = w * w + x * x + y * y + z * z
    return [1 - 2 * (y * y + z * z) / n, 2 * (x * y - z * w) / n, 2 * (x * z + y * w) / n,
            2 * (x * y + z * w) / n, 1 - 2 * (x * x + z * z) / n, 2 * (y * z - x * w) / n,
            2 * (x * z - y * w) / n, 2 * (y * z + x * w) / n, 1 - 2 * (x * x + y * y) / n]


def pose_close(impl_pose, model_pose, model_rot, scale):
    q = [Fraction(F(h)) for h in impl_pose[0:4]]
    if not any(q):
        return 'zero quaternion'
    for i, (a, b) in enumerate(zip(rot_exact(q), model_rot)):
        if abs(a - unrat(b)) > TOL:
            return f'rotation entry {i}: impl {float(a)!r} model {float(unrat(b))!r}'
    for i in range(3):
        a, b = Fraction(F(impl_pose[4 + i])), unrat(model_pose[4 + i])
        if abs(a - b) > TOL * scale:
            return f'translation {i}: impl {float(a)!r} model {float(b)!r}'
    return None


def tscale(case):
    mags = [1.0]
    for _, _, p in case['trajectories'] or []:
        mags += [abs(F(h)) for h in p['t']]
    for members in (case['rigs'] or {}).values():
        for p in members.values():
            mags += [abs(F(h)) for h in p['t']]
    return Fraction(max(mags)) * 8


def compare(case, io, mo):
    if case['trajectories'] is None:
        return None               # reported finding, outside the model (the oracle speaks)
    npairs = len(case.get('pairs', []))
    loop, table, pairs = mo[0], mo[1], mo[2:2 + npairs]
    if 'error' not in io:
        d = compare_text(case, io, mo[2 + npairs:])
        if d is not None:
            return d
    if 'error' in io or 'error' in loop:
        return f'errors differ: impl={io.get("error")} at {io.get("stage")} model={loop.get("error")}'
    # generated arithmetic and the table, called directly
    import kapture
    from kapture.converter.colmap import cameras as cc, database
    want = [[n, i, kapture.CAMERA_TYPE_PARAMS_COUNT_FROM_NAME[n] - 2] for n, i in cc.CAMERA_MODEL_NAME_ID]
    if table['table'] != want or table['max'] != str(database.MAX_IMAGE_ID):
        return f'camera table / MAX_IMAGE_ID: code {want} {database.MAX_IMAGE_ID} model {table}'
    for (a, b), ip, mp in zip(case.get('pairs', []), io['pairs'], pairs):
        if [mp.get('pid'), mp.get('back')] != ip:
            return f'pair id of ({a},{b}): impl {ip} model {mp}'
    db, out = io['db'], io['out']
    # export half: ids, cameras, matches, point lines
    if sorted(loop['imageIds']) != sorted([n, i] for i, n, _ in db['images']):
        return f'image ids: db {db["images"]} model {loop["imageIds"]}'
    cam_ids = dict(map(tuple, loop['cameraIds']))
    sensor_of = {n: c for _, c, n in case['records_camera']}
    for i, n, c in db['images']:
        if cam_ids.get(sensor_of[n]) != c:
            return f'camera id of image {n}: db {c} model {cam_ids.get(sensor_of[n])}'
    if loop['dbCameras'] != db['cameras']:
        return f'cameras table: db {db["cameras"]} model {loop["dbCameras"]}'
    if sorted(loop['dbMatches']) != sorted(db['matches']):
        return f'matches table: db {db["matches"]} model {loop["dbMatches"]}'
    if (io['lines'] or []) != loop['lines']:
        return f'points3D.txt: file {io["lines"]} model {loop["lines"]}'
    # import half
    if sorted(out['images']) != sorted(n for n, _, _ in loop['imageCameras']):
        return f'images: impl {sorted(out["images"])} model {sorted(n for n, _, _ in loop["imageCameras"])}'
    ids = dict(map(tuple, loop['imageIds']))
    for n, model, params in loop['imageCameras']:
        im = out['images'][n]
        if im == 'DUPLICATE' or [im['model'], im['params']] != [model, params] or im['id'] != ids[n]:
            return f'camera of {n}: impl {im} model {model} {params} id {ids[n]}'
    mposes = {n: (p, m) for n, p, m in loop['poses']}
    for n, im in out['images'].items():
        if (im['pose'] is None) != (n not in mposes):
            return f'pose presence of {n}: impl {im["pose"]} model {mposes.get(n)}'
        if im['pose'] is not None:
            d = pose_close(im['pose'], mposes[n][0], mposes[n][1], tscale(case))
            if d:
                return f'pose of {n}: {d}'
    got = []
    for t, ms in (out['matches'] or {}).items():
        got += [[a, b, [[int(F(r[0])), int(F(r[1]))] for r in rows]] for a, b, rows in ms]
    if sorted(got) != sorted(loop['matches']):
        return f'matches: impl {got} model {loop["matches"]}'
    ipts = (out['points3d'] or {'rows': []})['rows']
    if ipts != [p for p, _ in loop['points']]:
        return f'points: impl {ipts} model {[p for p, _ in loop["points"]]}'
    iobs = sorted([i, n, k] for i, _, n, k in out['observations'] or [])
    mobs = sorted([i, n, k] for i, (_, tr) in enumerate(loop['points']) for n, k in tr)
    if iobs != mobs:
        return f'observations: impl {iobs} model {mobs}'
    return None


# ------------------------------------------------------------------------------------------------------- oracle

def mat_of(p):
    """ own float arithmetic: rotation matrix and translation of a pose description """
    w, x, y, z = [F(h) for h in p['r']]
    n = math.sqrt(w * w + x * x + y * y + z * z)
    w, x, y, z = w / n, x / n, y / n, z / n
    R = np.array([[1 - 2 * (y * y + z * z), 2 * (x * y - z * w), 2 * (x * z + y * w)],
                  [2 * (x * y + z * w), 1 - 2 * (x * x + z * z), 2 * (y * z - x * w)],
                  [2 * (x * z - y * w), 2 * (y * z + x * w), 1 - 2 * (x * x + y * y)]])
    return R, np.array([F(h) for h in p['t']])


def expected_world_poses(case):
    """ {(ts, sensor): (R, t)}: a posed sensor keeps its pose; a sensor mounted (at any depth) on a posed rig is at
    sensor_from_rig o ... o rig_from_world """
    rigs = case['rigs'] or {}
    out = {}

    def descend(ts, dev, R, t):
        if dev in rigs:
            for m, p in rigs[dev].items():
                Rm, tm = mat_of(p)
                descend(ts, m, Rm @ R, Rm @ t + tm)
        else:
            out[(ts, dev)] = (R, t)
    for ts, dev, p in case['trajectories'] or []:
        descend(ts, dev, *mat_of(p))
    return out


def fail(sig, detail):
    return {'signature': sig, 'detail': str(detail)[:600]}


def oracle(case):
    r = run_real(case)
    if r['error']:
        return fail(f'raises:{r["stage"]}:{r["error"]}', r['detail'])
    # the arithmetic the match table is keyed by, on valid ids up to MAX_IMAGE_ID - 1
    for (a, b), (pid, back) in zip(case.get('pairs', []), r['pairs']):
        if back != [str(min(a, b)), str(max(a, b))]:
            return fail('pair-id-roundtrip', f'ids ({a}, {b}) -> pair id {pid} -> {back}')
    out = r['out']
    want_names = sorted(n for _, _, n in case['records_camera'])
    if sorted(out['images']) != want_names or 'DUPLICATE' in out['images'].values():
        return fail('images-differ', f'exported {want_names} imported {sorted(out["images"])}')
    world = expected_world_poses(case)
    mag = float(tscale(case))
    for ts, cam, name in case['records_camera']:
        im = out['images'][name]
        s = case['sensors'][cam]
        if im['model'] != s['params'][0] or im['params'] != [H(float(v)) for v in s['params'][1:]]:
            return fail('camera-differs', f'{name}: exported {s["params"]} imported {im["model"]} {[F(h) for h in im["params"]]}')
        if (ts, cam) not in world:
            if im['pose'] is not None:
                return fail('pose-invented', f'{name} had no pose, imported {im["pose"]}')
            continue
        if im['pose'] is None:
            return fail('pose-lost', f'{name} had a pose, none imported')
        R, t = world[(ts, cam)]
        R2, t2 = mat_of({'r': im['pose'][0:4], 't': im['pose'][4:7]})
        if not (np.all(np.abs(R - R2) <= 1e-9) and np.all(np.abs(t - t2) <= 1e-9 * mag)):
            return fail('pose-differs', f'{name}: expected R {R.tolist()} t {t.tolist()} imported R {R2.tolist()} t {t2.tolist()}')
    # features: bit-identical
    for part, key, dt in (('kp', 'keypoints', 'float32'), ('desc', 'descriptors', 'uint8')):
        want = case[part]
        got = out[key]
        if not want:
            if got:
                return fail(key + '-invented', got)
            continue
        if not got or list(got) != [want['type']]:
            return fail(key + '-differ', f'types: exported {want["type"]} imported {None if not got else list(got)}')
        g = got[want['type']]
        if g['dtype'] != dt or sorted(g['data']) != sorted(want['data']):
            return fail(key + '-differ', f'dtype {g["dtype"]} images {sorted(g["data"])} expected {sorted(want["data"])}')
        any_rows = any(want['data'].values())
        if any_rows and g['dsize'] != want['dsize']:
            return fail(key + '-differ', f'width {g["dsize"]} expected {want["dsize"]}')
        for n, rows in want['data'].items():
            if g['data'][n] != rows:
                return fail(key + '-differ', f'{n}: exported {rows} imported {g["data"][n]}')
    # matches: same index pairs for every pair
    want = case['matches']
    got = out['matches'] or {}
    gpairs = {(a, b): [[F(x) for x in row] for row in rows] for t, ms in got.items() for a, b, rows in ms}
    wpairs = {(a, b): rows for a, b, rows in (want or {'pairs': []})['pairs']}
    if sorted(gpairs) != sorted(wpairs) or (want and list(got) != [want['type']]):
        return fail('matches-differ', f'pairs: exported {sorted(wpairs)} imported {sorted(gpairs)} types {list(got)}')
    for pair, rows in wpairs.items():
        if [[float(i), float(j)] for i, j, _ in rows] != [row[0:2] for row in gpairs[pair]]:
            return fail('matches-differ', f'{pair}: exported {[r[0:2] for r in rows]} imported {[r[0:2] for r in gpairs[pair]]}')
    # structure
    wrows = (case['points3d'] or {'rows': []})['rows']
    grows = (out['points3d'] or {'rows': []})['rows']
    if len(wrows) != len(grows):
        return fail('points-differ', f'{len(wrows)} points exported, {len(grows)} imported')
    for i, (a, b) in enumerate(zip(wrows, grows)):
        if a[0:3] != b[0:3] or (len(a) == 6 and a != b):
            return fail('points-differ', f'point {i}: exported {[F(h) for h in a]} imported {[F(h) for h in b]}')
    wobs = sorted([i, case['kp']['type'], n, k] for i, n, k in case['observations'] or [])
    gobs = out['observations'] or []
    if wobs != gobs:
        return fail('observations-differ', f'exported {wobs} imported {gobs}')
    return None


# ------------------------------------------------------------------------------------------------------- bookkeeping

def swapped_pairs(case):
    order = sorted(case['records_camera'], key=lambda r: (r[0], r[1]))
    ids = {n: i + 1 for i, (_, _, n) in enumerate(order)}
    return [(a, b) for a, b, rows in (case['matches'] or {'pairs': []})['pairs']
            if ids[a] > ids[b] and any(i != j for i, j, _ in rows)]


def rig_posed(case):
    return [n for ts, c, n in case['records_camera'] if len(chain_poses(case).get((ts, c), [])) > 1]


def nontrivial(case):
    if case['trajectories'] is None:
        return None
    if swapped_pairs(case) or rig_posed(case):
        return key_of(case)
    return None


def distribution(cases_):
    d = {}

    def inc(k):
        d[k] = d.get(k, 0) + 1
    for c in cases_:
        inc('images=%d' % len(c['records_camera']))
        inc('cameras=%d' % len(camera_sensors(c)))
        inc('rigs=%d' % len(c['rigs'] or {}))
        inc('nested-rig' if any(m in (c['rigs'] or {}) for ms in (c['rigs'] or {}).values() for m in ms) else 'flat-or-none')
        inc('rig-posed-images=%d' % min(3, len(rig_posed(c))))
        inc('unposed-images=%d' % min(3, len(c['records_camera']) - len(posed_names(c))))
        inc('swapped-match-pairs=%d' % min(3, len(swapped_pairs(c))))
        inc('keypoints:' + ('none' if not c['kp'] else 'cols%d' % c['kp']['dsize']))
        inc('descriptors:' + ('none' if not c['desc'] else 'cols%d' % c['desc']['dsize']))
        inc('matches:' + ('none' if not c['matches'] else 'some'))
        inc('points:' + ('none' if not c['points3d'] else 'cols%d' % c['points3d']['cols']))
        inc('observations:' + ('none' if not c['observations'] else 'some'))
        inc('trajectories:' + ('none' if c['trajectories'] is None else 'some'))
        for _, s in camera_sensors(c):
            inc('model:' + s['params'][0])
    return d


def prune(c):
    """ remove references that dangle after a deletion, so that a shrunk case is still a dataset """
    names = {n for _, _, n in c['records_camera']}
    devs = set(c['sensors']) | set(c['rigs'] or {})
    if c['rigs'] is not None:
        c['rigs'] = {r: {m: p for m, p in ms.items() if m in devs} for r, ms in c['rigs'].items()}
        c['rigs'] = {r: ms for r, ms in c['rigs'].items() if ms} or None
    devs = set(c['sensors']) | set(c['rigs'] or {})
    if c['trajectories'] is not None:
        c['trajectories'] = [e for e in c['trajectories'] if e[1] in devs]
    for part in ('kp', 'desc'):
        if c[part]:
            c[part]['data'] = {n: v for n, v in c[part]['data'].items() if n in names}
            if not c[part]['data']:
                c[part] = None
    if not c['kp']:
        c['desc'] = None
        c['observations'] = None
    if c['desc']:
        c['desc']['data'] = {n: v for n, v in c['desc']['data'].items() if n in c['kp']['data']}
        if not c['desc']['data']:
            c['desc'] = None
    if c['matches']:
        c['matches']['pairs'] = [m for m in c['matches']['pairs'] if m[0] in names and m[1] in names]
        if not c['matches']['pairs']:
            c['matches'] = None
    if c['observations']:
        n = len(c['points3d']['rows']) if c['points3d'] else 0
        c['observations'] = [o for o in c['observations'] if o[0] < n and o[1] in c['kp']['data']] or None
    return c


def shrink(case, still_fails):
    """ greedy deletion of parts / entries while the oracle still fails """
    cur = json.loads(json.dumps(case))

    def attempt(edit):
        nonlocal cur
        c = json.loads(json.dumps(cur))
        try:
            edit(c)
            c = prune(c)
            if c['records_camera'] and camera_sensors(c) and all(r[1] in c['sensors'] for r in c['records_camera']) \
                    and still_fails(c):
                cur = c
                return True
        except Exception:
            pass
        return False

    changed = True
    while changed:
        changed = False
        for part in ('pairs', 'observations', 'points3d', 'matches', 'desc', 'kp', 'rigs'):
            if cur.get(part):
                changed |= attempt(lambda c, part=part: c.__setitem__(part, [] if part == 'pairs' else None))
        for part in ('records_camera', 'trajectories', 'observations', 'pairs'):
            i = 0
            while cur.get(part) and i < len(cur[part]):
                if attempt(lambda c, part=part, i=i: c[part].pop(i)):
                    changed = True
                else:
                    i += 1
        if cur['matches']:
            i = 0
            while cur['matches'] and i < len(cur['matches']['pairs']):
                if attempt(lambda c, i=i: c['matches']['pairs'].pop(i)):
                    changed = True
                else:
                    i += 1
        for sid in list(cur['sensors']):
            if attempt(lambda c, sid=sid: c['sensors'].pop(sid)):
                changed = True
        if cur['points3d']:
            i = len(cur['points3d']['rows']) - 1
            while cur['points3d'] and i >= 0:
                def drop(c, i=i):
                    c['points3d']['rows'].pop(i)
                    c['observations'] = [[p - (p > i), n, k] for p, n, k in c['observations'] or [] if p != i] or None
                if attempt(drop):
                    changed = True
                i -= 1
    return cur
