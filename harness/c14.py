"""
C14 — OpenMVG export then import preserves images, poses, structure and matches.

Correspondence: the REAL loop export_openmvg(...) -> import_openmvg(...) -> kapture_from_dir on generated datasets written to
disk (csv through the real writer, feature / match files with numpy) versus Model/C14.lean run on exact rationals:
  * the exported artefacts (sfm_data.json decoded: root directory name, intrinsics with their layout, views with their ids and
    local_path/filename, extrinsics centre + rotation to 1e-9, structure, and the blocks of the matches file),
  * the re-imported dataset (records, cameras, trajectories as rotation matrix + translation to 1e-9, points, observations,
    match pairs with their index columns), the images whose region files import finds.
Oracle (implementation only, shares no code with the model): the property itself — image set up to the common directory,
pose of every image (as a rotation, sign and scale of the quaternion ignored, 1e-9), intrinsics of representable cameras,
points, observations, match index pairs — evaluated from the input description and the re-imported dataset.
"""
import json
import math
import os
import shutil
import tempfile
import zlib
from fractions import Fraction

import numpy as np

import kgen

ID = 'C14'
TITLE = 'OpenMVG export then import preserves images, poses, structure and matches'
GEN = ['MvgIntrinsics']
RULE = ('each case = one generated dataset inside OpenMVG\'s range (kgen base: sensor ids incl. non-camera sensors, timestamp styles, '
        'orphan poses; then 1..6 uniquely named images over the directory layouts top / onedir / common / mixed / echo (the name of the common directory comes back deeper in the path) / flip (names whose '
        'order changes when "/" becomes "_"), 1..2 used cameras (+ sometimes an unused one) among SIMPLE_PINHOLE / PINHOLE / '
        'SIMPLE_RADIAL / RADIAL / OPENCV / FULL_OPENCV (k3 zero or not; about 15% not representable: fx != fy, k4..k6 != 0), every '
        'image posed with a quaternion among unit / near-180-degree (w down to 1e-16) / scaled 1e-2..1e2 either sign / axis / '
        'small-angle and |t| up to 1e5, one keypoints type sift|SIFT float32|float64 x 4|6 with 2..5 rows per image (8% of the '
        'cases have images with 0 or 1 row), uint8 x 128 descriptors, 0..12 points x 3|6 columns with up to 10 observations, 0..4 '
        'match pairs with 0..4 integer index pairs), run with and without path flattening, both intrinsic layouts, image action '
        'skip or copy; a fixed head covers every layout x flattening, flattening under a common directory and thin keypoint files; '
        '5% of the cases have colliding flattened names (outside the statement: correspondence only); distinct non-trivial = '
        'distinct cases with at least two images, a non-axis rotation and observations or matches')
ASSUMPTIONS = [
    'image names are normalised relative paths (no empty, "." or ".." component) and unique; os.path.commonpath / relpath / '
    'dirname / basename / join are modelled on such names only',
    'width and height of cameras are integral (the converter applies int() to them; OpenMVG stores integers)',
    'numpy-quaternion as_rotation_matrix is modelled by C05.rot (checked here to 1e-9); from_rotation_matrix is a third-party '
    'call, not modelled: the theorems assume it returns a quaternion with the same matrix, the loop checks it to 1e-9',
    'IEEE rounding is not modelled: floats are compared with the exact rational model at 1e-9 relative',
    'without path flattening OpenMVG\'s flat regions directory needs distinct image base names; with flattening distinct '
    'flattened names (flatten_eq_iff says exactly when two names collide); such inputs are outside the statement',
    'images that carry observations or matches have keypoints (the kapture loader drops observations of images without keypoints)',
    'rigs are outside this check (rig removal is C06); keypoint coordinates and descriptors go through %10.5f text / raw bytes '
    'and are not part of the statement',
]
TRUSTED = ['kgen.py dataset generator (build / describe)', 'kapture_to_dir / kapture_from_dir (C01) to write the input and read the result']
PARTIAL = ('The theorems cover the centre/translation algebra, the intrinsics parameter shuffles, id assignment, image naming '
           '(common directory, flattening), structure and match index plumbing of the Lean model; JSON / text / binary file formats, '
           'os.path, numpy and numpy-quaternion calls are exercised by full export -> import loops only.')
TOL = Fraction(1, 10 ** 9)

_cache = {}


def H(x):
    return float(x).hex()


def F(h):
    return float.fromhex(h)


def rat(x):
    fr = Fraction(float(x))
    return f'{fr.numerator}/{fr.denominator}'


def unrat(s):
    n, d = s.split('/')
    return Fraction(int(n), int(d))


# ------------------------------------------------------------------------------------------------------- generation

DIR_LAYOUTS = ['top', 'onedir', 'common', 'mixed', 'flip', 'echo']
CAM_CLASSES = ['SIMPLE_PINHOLE', 'PINHOLE', 'SIMPLE_RADIAL', 'RADIAL', 'OPENCV', 'FULL_OPENCV', 'FULL_OPENCV_k3zero',
               'PINHOLE_fxfy', 'OPENCV_fxfy', 'FULL_OPENCV_k4']


def gen_quat(rng):
    cls = rng.choice(['unit', 'near180', 'near180', 'scaled', 'axis', 'smallangle'])
    if cls == 'axis':
        q = rng.choice([[1, 0, 0, 0], [0, 1, 0, 0], [0, 0, 1, 0], [0, 0, 0, 1], [-1, 0, 0, 0], [0.5, 0.5, 0.5, 0.5]])
        return cls, [float(v) for v in q]
    v = [rng.gauss(0, 1) for _ in range(4)]
    n = math.sqrt(sum(a * a for a in v)) or 1.0
    q = [a / n for a in v]
    if cls == 'near180':
        q[0] = rng.choice([0.0, 1e-9, -1e-7, 1e-12, 1e-16, -1e-5]) * rng.random()
        n = math.sqrt(sum(a * a for a in q))
        q = [a / n for a in q]
    elif cls == 'smallangle':
        eps = 10.0 ** rng.uniform(-9, -3)
        q = [1.0, q[1] * eps, q[2] * eps, q[3] * eps]
        n = math.sqrt(sum(a * a for a in q))
        q = [a / n for a in q]
    elif cls == 'scaled':
        s = 10.0 ** rng.uniform(-2, 2) * rng.choice([1, -1])
        q = [a * s for a in q]
    return cls, q


def gen_cam(rng, cls):
    w, h = rng.choice([(640, 480), (1920, 1080), (1, 1), (4000, 3000)])
    f = rng.choice([float(rng.randint(1, 2000)), rng.uniform(1, 3000), 1668.7938300915464])
    cx, cy = rng.choice([(w / 2, h / 2), (rng.uniform(0, w), rng.uniform(0, h)), (0.0, 0.0)])

    def k():
        return rng.choice([0.0, rng.uniform(-0.5, 0.5), -0.15063858971626434, 1e-7, float(rng.randint(-2, 2))])

    def k_nonzero():
        v = k()
        return v if v != 0 else 0.0123
    if cls == 'SIMPLE_PINHOLE':
        return ['SIMPLE_PINHOLE', w, h, f, cx, cy]
    if cls == 'PINHOLE':
        return ['PINHOLE', w, h, f, f, cx, cy]
    if cls == 'PINHOLE_fxfy':
        return ['PINHOLE', w, h, f, f * 1.01 + 1, cx, cy]
    if cls == 'SIMPLE_RADIAL':
        return ['SIMPLE_RADIAL', w, h, f, cx, cy, k()]
    if cls == 'RADIAL':
        return ['RADIAL', w, h, f, cx, cy, k(), k()]
    if cls == 'OPENCV':
        return ['OPENCV', w, h, f, f, cx, cy, k(), k(), k(), k()]
    if cls == 'OPENCV_fxfy':
        return ['OPENCV', w, h, f, f + 3.5, cx, cy, k(), k(), k(), k()]
    if cls == 'FULL_OPENCV':
        return ['FULL_OPENCV', w, h, f, f, cx, cy, k(), k(), k(), k(), k_nonzero(), 0.0, 0.0, 0.0]
    if cls == 'FULL_OPENCV_k3zero':
        return ['FULL_OPENCV', w, h, f, f, cx, cy, k(), k(), k(), k(), 0.0, 0.0, 0.0, 0.0]
    if cls == 'FULL_OPENCV_k4':
        return ['FULL_OPENCV', w, h, f, f, cx, cy, k(), k(), k(), k(), k_nonzero(), k_nonzero(), 0.0, 0.5]
    raise ValueError(cls)


def cam_params_str(p):
    out = [p[0]]
    for v in p[1:]:
        v = float(v)
        out.append(str(int(v)) if v.is_integer() and abs(v) < 1e15 else repr(v))
    return out


def gen_names(rng, n, layout):
    nums = rng.sample(range(100), n)
    if layout == 'collide':
        base = ['a/b_c%02d.jpg' % nums[0], 'a_b/c%02d.jpg' % nums[0]]
        return base + ['z/img%02d.jpg' % k for k in nums[2:]] if n > 2 else base[:max(n, 2)]
    names = []
    for i, k in enumerate(nums):
        if layout == 'top':
            d = ''
        elif layout == 'onedir':
            d = None
        elif layout == 'common':
            d = 'cam0/' + rng.choice(['', 'sub.dir/', 'seq a/', 'ünï/x/'])
        elif layout == 'echo':
            # the name of the common directory comes back deeper in the path (as a whole component or as the end of one)
            d = 'cam/' + rng.choice(['left_cam/', 'cam/', 'x/cam/', 'right_cam/sub/', 'cam/cam/'])
        elif layout == 'mixed':
            d = rng.choice(['', 'seq a/', 'cam0/sub.dir/', 'ünï/', 'a/', 'ab/', 'a/b/'])
        else:   # flip: names whose order changes when '/' becomes '_'
            d = rng.choice(['a/', 'a/', ''])
        stem = 'img%02d' % k
        if layout == 'flip' and d == '':
            stem = rng.choice(['aB%02d', 'a.%02d', 'a_%02d', 'b%02d']) % k
        ext = rng.choice(['.jpg', '.jpg', '.png', '.JPG'])
        names.append((d, stem + ext))
    if layout == 'onedir':
        d = rng.choice(['seq a/', 'cam0/sub.dir/', 'x/', 'deep/er/dir/'])
        names = [(d, f) for _, f in names]
    return [d + f for d, f in names]


def gen_case(rng, tier, force=None):
    force = force or {}
    opts = kgen.Opts(p_part=0.7, id_pool=3, fancy_ids=rng.random() < 0.3, ts_style=rng.choice(['small', 'epoch', 'wide', 'signed']),
                     max_rows=4, partial_poses=False, cols=rng.choice([3, 6]),
                     force_parts={'trajectories'},
                     forbid_parts={'rigs', 'records_camera', 'records_depth', 'records_lidar', 'records_wifi', 'records_bluetooth',
                                   'records_gnss', 'records_accelerometer', 'records_gyroscope', 'records_magnetic',
                                   'keypoints', 'descriptors', 'global_features', 'matches', 'points3d', 'observations'})
    base = kgen.gen_dataset(rng, opts)
    d = {p: None for p in kgen.PART_NAMES}
    # sensors: the non-camera sensors of the base stay (the exporter must ignore them); cameras are ours
    sensors = {sid: s for sid, s in base['sensors'].items() if s['type'] not in ('camera', 'depth')}
    ncam = rng.choice([1, 1, 2])
    cam_ids, cam_cls = [], []
    for i in range(ncam + (1 if rng.random() < 0.25 else 0)):     # the extra one is used by no image
        cid = kgen.ident(rng, 'cam_', i, opts)
        if cid in sensors:
            continue
        cls = force.get('cam') or rng.choice(CAM_CLASSES[:7] if rng.random() < 0.85 else CAM_CLASSES[7:])
        sensors[cid] = {'type': 'camera', 'params': cam_params_str(gen_cam(rng, cls)), 'name': rng.choice([None, '', 'my cam'])}
        cam_ids.append(cid)
        cam_cls.append(cls)
    items = list(sensors.items())
    rng.shuffle(items)
    d['sensors'] = dict(items)
    used = cam_ids[:ncam]
    # images
    n = force.get('n') or rng.choice([1, 2, 2, 3, 3, 4, 5, 6])
    layout = force.get('layout') or (rng.choice(DIR_LAYOUTS) if rng.random() < 0.95 else 'collide')
    if layout == 'collide':
        n = max(n, 2)
    names = gen_names(rng, n, layout)
    n = len(names)
    recs, qcls = [], []
    seen = set()
    traj = {}
    for ts, dev, p in (base['trajectories'] or []):      # orphan poses of the base (other devices / timestamps)
        if dev not in cam_ids:
            traj[(ts, dev)] = p
    for name in names:
        for _ in range(50):
            ts = kgen.gen_timestamp(rng, opts.ts_style)
            cam = rng.choice(used)
            if (ts, cam) not in seen:
                break
        seen.add((ts, cam))
        recs.append([ts, cam, name])
        c, q = gen_quat(rng)
        qcls.append(c)
        mag = rng.choice([0.0, 1.0, 1e-3, 1e3, 1e5])
        traj[(ts, cam)] = {'r': [H(v) for v in q], 't': [H(rng.uniform(-mag, mag)) for _ in range(3)]}
    rng.shuffle(recs)
    d['records_camera'] = recs
    tl = [[ts, dev, p] for (ts, dev), p in traj.items()]
    rng.shuffle(tl)
    d['trajectories'] = tl
    # features
    ktype = rng.choice(['sift', 'SIFT', 'sift'])
    kp_images = sorted(names) if rng.random() < 0.7 else sorted(rng.sample(names, rng.randint(1, n)))
    thin = force.get('thin', False)
    kp_rows = {im: (rng.choice([0, 1, 1]) if thin and rng.random() < 0.6 else rng.randint(2, 5)) for im in kp_images}
    d['keypoints'] = {ktype: {'dtype': rng.choice(['float32', 'float64']), 'dsize': rng.choice([4, 6]), 'images': kp_images}}
    d['descriptors'] = {ktype: {'dtype': 'uint8', 'dsize': 128, 'keypoints_type': ktype, 'metric_type': 'L2', 'images': kp_images}}
    usable = [im for im in kp_images if kp_rows[im] > 0]
    match_rows = {}
    if len(usable) >= 2 and rng.random() < 0.75:
        pairs = set()
        for _ in range(rng.randint(1, 4)):
            a, b = rng.sample(usable, 2)
            pairs.add((min(a, b), max(a, b)))
        for a, b in sorted(pairs):
            rows = [[rng.randrange(kp_rows[a]), rng.randrange(kp_rows[b]), H(rng.random())] for _ in range(rng.randint(0, 4))]
            match_rows[a + '|' + b] = rows
        d['matches'] = {ktype: [list(p) for p in sorted(pairs)]}
    # structure
    if rng.random() < 0.85:
        cols = rng.choice([3, 6])
        rows = []
        for _ in range(rng.choice([0, 1, 2, 3, 6, 12])):
            row = [H(rng.choice([rng.uniform(-100, 100), float(rng.randint(-9, 9)), 0.1234567890123, 1e5 / 3, 0.0, -0.0, 1e-300]))
                   for _ in range(3)]
            rows.append(row + ([H(float(rng.randrange(256))) for _ in range(3)] if cols == 6 else []))
        d['points3d'] = {'cols': cols, 'rows': rows}
        if rows and usable and rng.random() < 0.85:
            obs, seen_o = [], set()
            for _ in range(rng.randint(0, 10)):
                im = rng.choice(usable)
                e = (rng.randrange(len(rows)), ktype, im, rng.randrange(kp_rows[im]))
                if e not in seen_o:
                    seen_o.add(e)
                    obs.append(list(e))
            d['observations'] = obs or None
    flatten = force['flatten'] if 'flatten' in force else rng.random() < 0.5
    return {'dataset': d, 'kp_rows': kp_rows, 'match_rows': match_rows, 'flatten': flatten, 'v2': rng.random() < 0.5,
            'action': rng.choice(['skip', 'skip', 'skip', 'copy']), 'layout': layout, 'qcls': qcls,
            'camcls': cam_cls[:ncam], 'thin': bool(thin)}


def cases(rng, tier):
    n = 300 if tier == 'quick' else 3000
    out = []
    # a deterministic head that always exercises both layouts x flattening x the directory layouts
    for layout, flatten in (('top', True), ('mixed', True), ('flip', True), ('onedir', False), ('common', False)):
        out.append(gen_case(rng, tier, {'layout': layout, 'flatten': flatten, 'n': 3}))
    # the two input classes that found defects (flattening under a common directory; an image with 0 or 1 keypoints)
    out.append(gen_case(rng, tier, {'layout': 'onedir', 'flatten': True, 'n': 2}))
    out.append(gen_case(rng, tier, {'layout': 'common', 'flatten': True, 'n': 3}))
    out.append(gen_case(rng, tier, {'layout': 'echo', 'flatten': True, 'n': 3}))
    out.append(gen_case(rng, tier, {'layout': 'echo', 'flatten': False, 'n': 3}))
    out.append(gen_case(rng, tier, {'thin': True, 'layout': 'top', 'n': 2}))
    # name pairs whose order changes under flattening (the index columns of their matches must be swapped on import)
    for _ in range(n // 12):
        out.append(gen_case(rng, tier, {'layout': 'flip', 'flatten': True, 'n': rng.choice([3, 4, 5])}))
    while len(out) < n:
        out.append(gen_case(rng, tier, {'thin': rng.random() < 0.08}))
    return out


# ------------------------------------------------------------------------------------------------------- the real loop

def key_of(case):
    return json.dumps(case, sort_keys=True)


def run_real(case):
    k = key_of(case)
    if k in _cache:
        return _cache[k]
    _cache.clear()
    _cache[k] = _run_real(case)
    return _cache[k]


def kp_array(name, rows, cols, dtype):
    r = np.random.RandomState(zlib.crc32(name.encode()))
    return (r.rand(rows, cols) * 1000).astype(dtype)


def write_input(case, src):
    import kapture
    import kapture.io.features as kf
    from kapture.io.csv import kapture_to_dir
    from kapture.io.records import get_image_fullpath
    d = case['dataset']
    os.makedirs(src)
    kapture_to_dir(src, kgen.build(d))
    for ts, cam, name in d['records_camera']:
        p = get_image_fullpath(src, name)
        os.makedirs(os.path.dirname(p), exist_ok=True)
        with open(p, 'wb') as f:
            f.write(('image ' + name).encode())
    (ktype, kd), = d['keypoints'].items()
    for name in kd['images']:
        rows = case['kp_rows'][name]
        for full, arr in ((kf.get_keypoints_fullpath(ktype, src, name), kp_array(name, rows, kd['dsize'], kd['dtype'])),
                          (kf.get_descriptors_fullpath(ktype, src, name),
                           np.random.RandomState(zlib.crc32(name.encode()) ^ 1).randint(0, 256, size=(rows, 128)).astype(np.uint8))):
            os.makedirs(os.path.dirname(full), exist_ok=True)
            with open(full, 'wb') as f:
                f.write(arr.tobytes())
    for pair, rows in case['match_rows'].items():
        a, b = pair.split('|')
        full = kf.get_matches_fullpath((a, b), ktype, src)
        os.makedirs(os.path.dirname(full), exist_ok=True)
        arr = np.array([[float(i), float(j), F(s)] for i, j, s in rows], dtype=np.float64).reshape((-1, 3))
        with open(full, 'wb') as f:
            f.write(arr.tobytes())


GET_ID_MASK = 2147483647


def decode_sfm(path_json, path_matches):
    """ sfm_data.json + matches file -> canonical, JSON-able """
    j = json.load(open(path_json))
    names = {}
    intr = []
    for s in j['intrinsics']:
        v = s['value']
        if 'polymorphic_name' in v:
            pid = v['polymorphic_id'] & GET_ID_MASK
            names[pid] = v['polymorphic_name']
        else:
            pid = v['polymorphic_id']
        data = v['ptr_wrapper']['data']
        nested = 'value0' in data
        common = data['value0'] if nested else data
        disto = []
        for key in ('disto_k1', 'disto_k3', 'disto_t2', 'fisheye'):
            if key in data:
                disto = data[key]
        intr.append([s['key'], names.get(pid, '?'), nested, common['width'], common['height'], H(common['focal_length']),
                     H(common['principal_point'][0]), H(common['principal_point'][1]), [H(x) for x in disto]])
    views = []
    for v in j['views']:
        dt = v['value']['ptr_wrapper']['data']
        views.append([v['key'], dt['id_view'], dt['id_intrinsic'], dt['id_pose'], dt['local_path'], dt['filename']])
    extr = [[e['key'], [H(x) for x in e['value']['center']], [H(x) for row in e['value']['rotation'] for x in row]]
            for e in j['extrinsics']]
    st = None
    if j['structure'] is not None:
        st = [[p['key'], [H(x) for x in p['value']['X']], [[o['key'], o['value']['id_feat']] for o in p['value']['observations']]]
              for p in j['structure']]
    ms = None
    if os.path.isfile(path_matches):
        ms = []
        lines = open(path_matches).read().split('\n')
        i = 0
        while i < len(lines) and lines[i].strip():
            a, b = lines[i].split()
            cnt = int(lines[i + 1])
            rows = [[int(x) for x in lines[i + 2 + r].split()] for r in range(cnt)]
            ms.append([int(a), int(b), rows])
            i += 2 + cnt
    return {'imagesDir': os.path.basename(j['root_path']), 'intrinsics': intr, 'views': views, 'extrinsics': extr, 'structure': st,
            'matches': ms}


def _run_real(case):
    import kapture.io.features as kf
    from kapture.converter.openmvg.export_openmvg import export_openmvg
    from kapture.converter.openmvg.import_openmvg import import_openmvg
    from kapture.io.csv import kapture_from_dir
    from kapture.io.records import TransferAction
    base = tempfile.mkdtemp(prefix='c14_')
    res = {'error': None, 'stage': None, 'detail': None, 'order': None, 'input': None, 'export': None, 'back': None, 'back_matches': None,
           'regions_written': None}
    try:
        src = os.path.join(base, 'src')
        write_input(case, src)
        k0 = kapture_from_dir(src)
        res['order'] = {
            'records': [[ts, cam, name] for ts, dd in k0.records_camera.items() for cam, name in dd.items()],
            'cameras': [[cid, c.camera_type.name] + [H(v) for v in c.camera_params] for cid, c in k0.cameras.items()],
            'observations': []}
        # the dataset under test is the one ON DISK (the csv writer rounds point coordinates to 10 decimals)
        res['input'] = kgen.describe(k0)
        (ktype0, _), = case['dataset']['keypoints'].items()
        if k0.points3d is not None:
            for idx in range(len(k0.points3d)):
                obs = []
                if k0.observations is not None and idx in k0.observations and ktype0 in k0.observations[idx]:
                    obs = [[im, int(f)] for im, f in k0.observations[idx, ktype0]]
                res['order']['observations'].append(obs)
        mvg = os.path.join(base, 'mvg')
        action = TransferAction[case['action']]
        sfm, regions, mfile = os.path.join(mvg, 'sfm_data.json'), os.path.join(mvg, 'regions'), os.path.join(mvg, 'matches', 'matches.f.txt')
        try:
            export_openmvg(src, sfm, os.path.join(mvg, 'images'), regions, mfile, action, case['flatten'], None, None, case['v2'], False)
        except Exception as e:
            res.update(error=type(e).__name__, stage='export', detail=repr(e)[:300])
            return res
        res['export'] = decode_sfm(sfm, mfile)
        res['regions_written'] = sorted(os.listdir(regions)) if os.path.isdir(regions) else []
        back = os.path.join(base, 'back')
        try:
            import_openmvg(sfm, regions, mfile if os.path.isfile(mfile) else None, back, action)
        except Exception as e:
            res.update(error=type(e).__name__, stage='import', detail=repr(e)[:300])
            return res
        try:
            kb = kapture_from_dir(back)
        except Exception as e:
            res.update(error=type(e).__name__, stage='reload', detail=repr(e)[:300])
            return res
        res['back'] = kgen.describe(kb)
        bm = {}
        for kt, m in (kb.matches or {}).items():
            for a, b in m:
                arr = np.fromfile(kf.get_matches_fullpath((a, b), kt, back), dtype=np.float64).reshape((-1, 3))
                bm[a + '|' + b] = [[int(r[0]), int(r[1])] for r in arr.tolist()]
        res['back_matches'] = bm
        return res
    finally:
        shutil.rmtree(base, ignore_errors=True)


def run_impl(case):
    r = run_real(case)
    if r['error']:
        return {'error': r['error'], 'stage': r['stage'], 'export': r['export']}
    return {'export': r['export'], 'back': r['back'], 'back_matches': r['back_matches'], 'regions_written': r['regions_written']}


# ------------------------------------------------------------------------------------------------------- model requests

def only_type(d):
    (ktype, _), = d['keypoints'].items()
    return ktype


def to_model(case):
    r = run_real(case)
    d = r['input']
    ktype = only_type(case['dataset'])
    cams = []
    for row in r['order']['cameras']:
        cid, ctype, hexes = row[0], row[1], row[2:]
        w, h = F(hexes[0]), F(hexes[1])
        cams.append([cid, ctype, int(w), int(h), [rat(F(x)) for x in hexes[2:]]])
    poses = [[ts, dev, [rat(F(x)) for x in p['r'] + p['t']]] for ts, dev, p in d['trajectories']]
    points = None
    if d['points3d'] is not None:
        points = [[row[0:3], r['order']['observations'][i]] for i, row in enumerate(d['points3d']['rows'])]
    matches = None
    if d['matches'] and ktype in d['matches']:
        matches = [[a, b, [[i, j] for i, j, _ in case['match_rows'][a + '|' + b]]] for a, b in d['matches'][ktype]]
    root_base = 'records_data' if case['action'] == 'skip' else 'images'
    return [{'op': 'loop', 'flatten': case['flatten'], 'v2': case['v2'], 'rootBase': root_base, 'records': r['order']['records'],
             'cameras': cams, 'poses': poses, 'points': points, 'matches': matches}]


# ------------------------------------------------------------------------------------------------------- comparison

def close(x, model_s, scale=1):
    return abs(Fraction(x) - unrat(model_s)) <= TOL * max(Fraction(scale), Fraction(1, 10 ** 6))


def rotmat(q):
    """ rotation matrix of a (not necessarily unit) quaternion, row-major list """
    w, x, y, z = q
    n = w * w + x * x + y * y + z * z
    return [1 - 2 * (y * y + z * z) / n, 2 * (x * y - z * w) / n, 2 * (x * z + y * w) / n,
            2 * (x * y + z * w) / n, 1 - 2 * (x * x + z * z) / n, 2 * (y * z - x * w) / n,
            2 * (x * z - y * w) / n, 2 * (y * z + x * w) / n, 1 - 2 * (x * x + y * y) / n]


def tscale(case):
    return max([1.0] + [abs(F(h)) for _, _, p in case['dataset']['trajectories'] for h in p['t']])


def stem(name):
    return os.path.splitext(name)[0]


def compare(case, io, mo):
    mo = mo[0]
    if 'error' in mo and 'export' not in mo:
        return f'model refused the request: {mo}'
    me = mo['export']
    if io.get('error') and io.get('stage') == 'export':
        return None if me.get('error') == io['error'] else f'export error: impl {io["error"]} model {me}'
    if 'error' in me:
        return f'export error: impl none model {me["error"]}'
    ie = io['export']
    sc = tscale(case)
    # --- exported artefacts
    if ie['imagesDir'] != me['imagesDir']:
        return f'root directory name: impl {ie["imagesDir"]!r} model {me["imagesDir"]!r}'
    if ie['views'] != me['views']:
        return f'views: impl {ie["views"]} model {me["views"]}'
    if len(ie['intrinsics']) != len(me['intrinsics']):
        return f'intrinsics count: impl {len(ie["intrinsics"])} model {len(me["intrinsics"])}'
    for a, (mk, b) in zip(ie['intrinsics'], me['intrinsics']):
        if [a[0]] + a[1:5] != [mk] + b[0:4] or len(a[8]) != len(b[7]):
            return f'intrinsic: impl {a} model {[mk] + b}'
        for x, y in zip(a[5:8] + a[8], b[4:7] + b[7]):
            if not close(F(x), y, abs(F(x))):
                return f'intrinsic value: impl {a} model {[mk] + b}'
    if [e[0] for e in ie['extrinsics']] != [e[0] for e in me['extrinsics']]:
        return f'extrinsics keys: impl {[e[0] for e in ie["extrinsics"]]} model {[e[0] for e in me["extrinsics"]]}'
    for a, b in zip(ie['extrinsics'], me['extrinsics']):
        for x, y in zip(a[1], b[1]):
            if not close(F(x), y, sc):
                return f'centre of view {a[0]}: impl {[F(v) for v in a[1]]} model {[float(unrat(v)) for v in b[1]]}'
        for x, y in zip(a[2], b[2]):
            if not close(F(x), y):
                return f'rotation of view {a[0]}: impl {[F(v) for v in a[2]]} model {[float(unrat(v)) for v in b[2]]}'
    if ie['structure'] != me['structure']:
        return f'structure: impl {str(ie["structure"])[:300]} model {str(me["structure"])[:300]}'
    key = lambda b: (b[0], b[1])
    if (None if ie['matches'] is None else sorted(ie['matches'], key=key)) != (None if me['matches'] is None else sorted(me['matches'], key=key)):
        return f'matches file: impl {ie["matches"]} model {me["matches"]}'
    # --- region files: what export writes, what import will look for
    d = case['dataset']
    ktype = only_type(d)
    kp_images = set(d['keypoints'][ktype]['images'])
    written = {stem(base) for name, base in mo['regions'] if name in kp_images}
    if {stem(f) for f in io.get('regions_written') or [] if f.endswith('.feat')} != written and io.get('regions_written') is not None:
        return f'region files: impl {io["regions_written"]} model {sorted(written)}'
    # --- re-imported dataset
    mi = mo['import']
    if io.get('error'):
        # import / reload errors: the model has no file-format layer; only the ValueError of unknown ids is modelled
        if 'error' in mi:
            return None if mi['error'] == io['error'] else f'import error: impl {io["error"]} model {mi["error"]}'
        if io['error'] == 'IndexError' and any(v < 2 for v in case['kp_rows'].values()):
            return None     # np.loadtxt on a .feat file of fewer than two lines: outside the model (file formats), see oracle
        return f'import error: impl {io["stage"]}:{io["error"]} model none'
    if 'error' in mi:
        return f'import error: impl none model {mi["error"]}'
    back = io['back']
    recs = sorted([ts, int(dev), name] for ts, dev, name in back['records_camera'] or [])
    if recs != sorted(mi['records']):
        return f'imported records: impl {recs} model {sorted(mi["records"])}'
    cams_i = {int(k): v for k, v in (back['sensors'] or {}).items()}
    if sorted(cams_i) != sorted(k for k, _ in mi['cameras']):
        return f'imported camera ids: impl {sorted(cams_i)} model {[k for k, _ in mi["cameras"]]}'
    for k, (ctype, w, h, ps) in mi['cameras']:
        p = cams_i[k]['params']
        if p[0] != ctype or [float(p[1]), float(p[2])] != [float(w), float(h)] or len(p) - 3 != len(ps):
            return f'imported camera {k}: impl {p} model {[ctype, w, h, ps]}'
        for x, y in zip(p[3:], ps):
            if not close(float(x), y, abs(float(x))):
                return f'imported camera {k}: impl {p} model {[ctype, w, h] + [float(unrat(v)) for v in ps]}'
    tr_i = {(ts, int(dev)): p for ts, dev, p in back['trajectories'] or []}
    tr_m = {(ts, dev): (t, r) for ts, dev, t, r in mi['trajectories']}
    if sorted(tr_i) != sorted(tr_m):
        return f'imported trajectory keys: impl {sorted(tr_i)} model {sorted(tr_m)}'
    for k_, p in tr_i.items():
        t, r = tr_m[k_]
        for x, y in zip(p['t'], t):
            if not close(F(x), y, sc):
                return f'imported translation {k_}: impl {[F(v) for v in p["t"]]} model {[float(unrat(v)) for v in t]}'
        for x, y in zip(rotmat([F(v) for v in p['r']]), r):
            if not close(x, y):
                return f'imported rotation {k_}: impl quaternion {[F(v) for v in p["r"]]} model matrix {[float(unrat(v)) for v in r]}'
    pts_i = None if back['points3d'] is None else [row[0:3] for row in back['points3d']['rows']]
    if pts_i != mi['points']:
        return f'imported points: impl {str(pts_i)[:300]} model {str(mi["points"])[:300]}'
    # the loader keeps the observations of images whose keypoints were found: found = import's region name is one export wrote
    look = {name: stem(base) for _, name, base in mo['lookFor']}
    found = {name for name, st_ in look.items() if st_ in written}
    kp_back = set()
    for v in (back['keypoints'] or {}).values():
        kp_back |= set(v['images'])
    if kp_back != found:
        return f'images with keypoints after import: impl {sorted(kp_back)} model {sorted(found)}'
    obs_m = sorted([i, n, f] for i, n, f in mi['observations'] if n in found)
    obs_i = sorted([i, n, f] for i, _, n, f in back['observations'] or [])
    if obs_i != obs_m:
        return f'imported observations: impl {obs_i} model {obs_m}'
    # blocks are written in the iteration order of a Python set; when two exported pairs collide on the same imported pair
    # (colliding flattened names, outside the statement) either block may be the one that stays
    mm = {}
    for a, b, rows in mi['matches'] or []:
        mm.setdefault(a + '|' + b, []).append(rows)
    bm = io['back_matches'] or {}
    if sorted(bm) != sorted(mm) or any(bm[k_] not in mm[k_] for k_ in bm):
        return f'imported matches: impl {bm} model {mm}'
    return None


# ------------------------------------------------------------------------------------------------------- oracle

def sub_root(names):
    """ components shared by the directories of all names, as a string """
    dirs = [n.split('/')[:-1] for n in names]
    if not dirs:
        return ''
    common = dirs[0]
    for dcomp in dirs[1:]:
        k = 0
        while k < len(common) and k < len(dcomp) and common[k] == dcomp[k]:
            k += 1
        common = common[:k]
    return '/'.join(common)


def expected_intrinsics(params):
    """ (model, w, h, f, cx, cy, distortion) of a representable kapture camera, None when OpenMVG cannot express it """
    t = params[0]
    v = [float(x) for x in params[1:]]
    if t == 'SIMPLE_PINHOLE':
        return ('pinhole', v[0], v[1], v[2], v[3], v[4], ())
    if t == 'PINHOLE':
        return ('pinhole', v[0], v[1], v[2], v[4], v[5], ()) if v[2] == v[3] else None
    if t == 'SIMPLE_RADIAL':
        return ('radial', v[0], v[1], v[2], v[3], v[4], (v[5], 0.0))
    if t == 'RADIAL':
        return ('radial', v[0], v[1], v[2], v[3], v[4], (v[5], v[6]))
    if t in ('OPENCV', 'FULL_OPENCV'):
        if v[2] != v[3] or any(x != 0 for x in v[11:14]):
            return None
        k3 = v[10] if len(v) > 10 else 0.0
        return ('brown', v[0], v[1], v[2], v[4], v[5], (v[6], v[7], k3, v[8], v[9]))
    return None


def in_statement(case):
    """ the image names can be told apart in OpenMVG's files (otherwise the statement does not apply) """
    names = [r[2] for r in case['dataset']['records_camera']]
    if case['flatten']:
        flat = [n.replace('/', '_') for n in names]
        return len(set(flat)) == len(flat)
    stems = [stem(os.path.basename(n)) for n in names]
    return len(set(stems)) == len(stems)


def oracle(case):
    if not in_statement(case):
        return None
    r = run_real(case)
    d = r['input']
    ktype = only_type(case['dataset'])
    if r['error']:
        sig = f'{r["stage"]}-raises:{r["error"]}'
        if r['stage'] == 'import' and r['error'] == 'IndexError' and any(v < 2 for v in case['kp_rows'].values()):
            sig = 'import-raises:IndexError:image-with-fewer-than-two-keypoints'
        return {'signature': sig, 'detail': r['detail']}
    back = r['back']
    names = [rec[2] for rec in d['records_camera']]
    sub = sub_root(names)
    rel = {n: (n[len(sub) + 1:] if sub else n) for n in names}
    if case['flatten']:
        rel = {n: v.replace('/', '_') for n, v in rel.items()}
    back_recs = back['records_camera'] or []
    back_names = [n for _, _, n in back_recs]
    # 1. same images up to the common image-root prefix
    tails = {}
    for n in back_names:
        head, _, tail = n.partition('/')
        tails.setdefault(tail, []).append((head, n))
    heads = {h for v in tails.values() for h, _ in v}
    if sorted(tails) != sorted(rel.values()) or len(back_names) != len(names) or len(heads) > 1:
        return {'signature': 'image-set-differs', 'detail': f'exported {sorted(rel.values())} under {sub!r}; imported {sorted(back_names)}'}
    phi = {n: tails[rel[n]][0][1] for n in names}
    where = {n: (ts, dev) for ts, dev, n in back_recs}
    # 2. poses
    traj_in = {(ts, dev): p for ts, dev, p in d['trajectories']}
    traj_back = {(ts, dev): p for ts, dev, p in back['trajectories'] or []}
    for ts, cam, n in d['records_camera']:
        p = traj_in[(ts, cam)]
        q = traj_back.get(where[phi[n]])
        if q is None or q['r'] is None or q['t'] is None:
            return {'signature': 'pose-lost', 'detail': f'{n}: no pose after the loop'}
        r0, r1 = rotmat([F(v) for v in p['r']]), rotmat([F(v) for v in q['r']])
        if max(abs(a - b) for a, b in zip(r0, r1)) > 1e-9:
            return {'signature': 'rotation-differs', 'detail': f'{n}: {p["r"]} -> {q["r"]}'}
        t0, t1 = [F(v) for v in p['t']], [F(v) for v in q['t']]
        if max(abs(a - b) for a, b in zip(t0, t1)) > 1e-9 * max([1.0] + [abs(a) for a in t0]):
            return {'signature': 'translation-differs', 'detail': f'{n}: {t0} -> {t1}'}
    # 3. intrinsics of representable cameras
    for ts, cam, n in d['records_camera']:
        want = expected_intrinsics(d['sensors'][cam]['params'])
        if want is None:
            continue
        got_sensor = (back['sensors'] or {}).get(where[phi[n]][1])
        got = None if got_sensor is None else expected_intrinsics(got_sensor['params'])
        if got != want:
            return {'signature': 'intrinsics-differ', 'detail': f'{n}: {d["sensors"][cam]["params"]} -> {got_sensor}'}
    # 4. points
    pin = [] if d['points3d'] is None else [row[0:3] for row in d['points3d']['rows']]
    pback = [] if back['points3d'] is None else [row[0:3] for row in back['points3d']['rows']]
    if pin != pback:
        return {'signature': 'points-differ', 'detail': f'{len(pin)} points in, {len(pback)} back; first difference at '
                f'{next((i for i, (a, b) in enumerate(zip(pin, pback)) if a != b), min(len(pin), len(pback)))}'}
    # 5. observations
    oin = sorted([i, phi[im], f] for i, kt, im, f in d['observations'] or [] if kt == ktype) if pin else []
    oback = sorted([i, im, f] for i, _, im, f in back['observations'] or [])
    if oin != oback:
        lost = [o for o in oin if o not in oback]
        sig = 'observations-lost' if lost and not [o for o in oback if o not in oin] else 'observations-differ'
        if sig == 'observations-lost' and case['flatten'] and sub:
            sig = 'observations-lost:flatten-with-common-directory'
        return {'signature': sig, 'detail': f'lost {lost[:4]} extra {[o for o in oback if o not in oin][:4]}; images with keypoints '
                f'after import: {sorted(set().union(*[set(v["images"]) for v in (back["keypoints"] or {}).values()] or [set()]))}'}
    # 6. matches: same index pairs per image pair
    want_m = {}
    for pair, rows in case['match_rows'].items():
        a, b = pair.split('|')
        pa, pb = phi[a], phi[b]
        idx = [(i, j) for i, j, _ in rows]
        if pb < pa:
            pa, pb, idx = pb, pa, [(j, i) for i, j in idx]
        want_m[(pa, pb)] = idx
    got_m = {tuple(k.split('|')): [tuple(x) for x in v] for k, v in (r['back_matches'] or {}).items()}
    if want_m != got_m:
        return {'signature': 'matches-differ', 'detail': f'expected {want_m} got {got_m}'}
    return None


# ------------------------------------------------------------------------------------------------------- bookkeeping

def nontrivial(case):
    d = case['dataset']
    if len(d['records_camera']) >= 2 and any(c != 'axis' for c in case['qcls']) and (d['observations'] or case['match_rows']):
        return key_of(case)
    return None


def distribution(cases_):
    dist = {}

    def bump(k):
        dist[k] = dist.get(k, 0) + 1
    for c in cases_:
        bump('layout:' + c['layout'])
        bump('flatten:%s' % c['flatten'])
        bump('v2:%s' % c['v2'])
        bump('action:' + c['action'])
        bump('images:%d' % len(c['dataset']['records_camera']))
        bump('in-statement:%s' % in_statement(c))
        for q in c['qcls']:
            bump('q:' + q)
        for q in c['camcls']:
            bump('cam:' + q)
        bump('points:' + ('none' if c['dataset']['points3d'] is None else str(len(c['dataset']['points3d']['rows']))))
        bump('observations:%d' % len(c['dataset']['observations'] or []))
        bump('match-pairs:%d' % len(c['match_rows']))
        if any(v < 2 for v in c['kp_rows'].values()):
            bump('image-with-<2-keypoints')
        if c['flatten'] and sub_root([r[2] for r in c['dataset']['records_camera']]):
            bump('flatten+common-directory')
        if c['flatten']:
            for pair in c['match_rows']:
                a, b = pair.split('|')
                if (a < b) != (a.replace('/', '_') < b.replace('/', '_')):
                    bump('match-pair-whose-order-flips')
    return dist


def shrink(case, still_fails):
    """ greedy: drop images (with everything that refers to them), points, pairs, then orphan poses and unused sensors """
    def without_image(c, name):
        c = json.loads(json.dumps(c))
        d = c['dataset']
        keep = [r for r in d['records_camera'] if r[2] != name]
        if not keep:
            return None
        gone = [r for r in d['records_camera'] if r[2] == name]
        d['records_camera'] = keep
        d['trajectories'] = [t for t in d['trajectories'] if not any(t[0] == g[0] and t[1] == g[1] for g in gone)]
        c['qcls'] = c['qcls'][:len(keep)]
        for part in ('keypoints', 'descriptors'):
            for v in d[part].values():
                v['images'] = [i for i in v['images'] if i != name]
        c['kp_rows'].pop(name, None)
        if d['observations']:
            d['observations'] = [o for o in d['observations'] if o[2] != name] or None
        if d['matches']:
            for kt in list(d['matches']):
                d['matches'][kt] = [p for p in d['matches'][kt] if name not in p]
            if not any(d['matches'].values()):
                d['matches'] = None
        c['match_rows'] = {k: v for k, v in c['match_rows'].items() if name not in k.split('|')}
        if not any(v['images'] for v in d['keypoints'].values()):
            return None
        return c

    changed = True
    while changed:
        changed = False
        for rec in list(case['dataset']['records_camera']):
            c = without_image(case, rec[2])
            if c is not None and still_fails(c):
                case, changed = c, True
                break
    for simplify in ('matches', 'observations', 'points', 'orphans', 'sensors'):
        c = json.loads(json.dumps(case))
        d = c['dataset']
        if simplify == 'matches':
            d['matches'], c['match_rows'] = None, {}
        elif simplify == 'observations':
            d['observations'] = None
        elif simplify == 'points':
            d['points3d'], d['observations'] = None, None
        elif simplify == 'orphans':
            keys = {(r[0], r[1]) for r in d['records_camera']}
            d['trajectories'] = [t for t in d['trajectories'] if (t[0], t[1]) in keys]
        else:
            used = {r[1] for r in d['records_camera']}
            d['sensors'] = {k: v for k, v in d['sensors'].items() if k in used}
            d['trajectories'] = [t for t in d['trajectories'] if t[1] in d['sensors']]
        try:
            if still_fails(c):
                case = c
        except Exception:
            pass
    return case
