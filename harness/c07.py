"""
C07 — trajectory and record containers act as plain maps whatever the edit history.
Correspondence: whole histories run on kapture.Trajectories / kapture.RecordsCamera and on the Lean state machine
(Model/C07.lean), output compared after every operation.
Oracle (implementation only): a plain dict-of-dicts run next to the container; content, membership, sorted list,
timestamp length and interpolation are compared with what the plain map implies, and with a FRESH container rebuilt
from the content (history independence); interpolation must never raise.
"""
import itertools
import json

ID = 'C07'
TITLE = 'Trajectory and record containers act as plain maps whatever the edit history'
GEN = ['NumDigits']
RULE = ('exhaustive: every sequence of <=3 (quick) / <=4 (thorough) operations from a 22-letter alphabet (set by pair, set by '
        'timestamp incl. empty dict, delete pair, delete timestamp, cache-warming sorted-list query; 3 timestamps x 2 devices) '
        'followed by a fixed probe suffix (sorted list, length, key pairs, membership, 14 interpolations); random: long histories '
        'over large alphabets with 1..19-digit and negative timestamps, for Trajectories and RecordsCamera. '
        'distinct non-trivial = distinct histories containing at least one mutation that succeeds')
ASSUMPTIONS = [
    'quaternion.slerp / the linear translation formula are opaque: the model returns the five arguments '
    'compute_intermediate_pose is called with, the harness compares those; the oracle checks the translation is the '
    'linear interpolant',
    'Python dict semantics (insertion order, in-place overwrite) as in Base/Dict.lean; sorted() as insertion sort',
    'TypeError branches for ill-typed keys/values are outside the model',
]
TRUSTED = ['bisect_left on a sorted list = number of elements < x']
PARTIAL = ''

_K = None


def K():
    global _K
    if _K is None:
        import kapture
        import sys
        T = sys.modules['kapture.core.Trajectories']   # (the attribute of the same name on the package is the class)
        _K = (kapture, T)
    return _K


# ---------------------------------------------------------------------------------------------------- running a history

class ImplRunner:
    def __init__(self, kind):
        kapture, T = K()
        self.kind = kind
        self.c = kapture.Trajectories() if kind == 'traj' else kapture.RecordsCamera()
        self.poses = {}
        self.ids = {}
        self.calls = []

    def val(self, pid):
        kapture, T = K()
        if self.kind == 'rec':
            return 'r%d' % pid
        if pid not in self.poses:
            p = kapture.PoseTransform(r=[1, 0, 0, 0], t=[float(pid), 0, 0])
            self.poses[pid] = p
            self.ids[id(p)] = pid
        return self.poses[pid]

    def unval(self, v):
        if self.kind == 'rec':
            return int(v[1:])
        return self.ids.get(id(v), -1)

    def do(self, op):
        kapture, T = K()
        c = self.c
        name = op[0]
        try:
            if name == 'setPair':
                c[op[1], op[2]] = self.val(op[3])
                return 'ok'
            if name == 'setTs':
                c[op[1]] = {d: self.val(p) for d, p in op[2]}
                return 'ok'
            if name == 'delPair':
                del c[op[1], op[2]]
                return 'ok'
            if name == 'delTs':
                del c[op[1]]
                return 'ok'
            if name == 'hasPair':
                return bool((op[1], op[2]) in c)
            if name == 'hasTs':
                return bool(op[1] in c)
            if name == 'getPair':
                return {'pose': self.unval(c[op[1], op[2]])}
            if name == 'keyPairs':
                return {'pairs': [[t, d] for t, d in c.key_pairs()]}
            if name == 'sortedList':
                return {'ints': list(c.timestamps_sorted_list())}
            if name == 'tsLength':
                return {'int': int(c.timestamp_length())}
            if name == 'interp':
                calls = []
                orig = T.compute_intermediate_pose

                def spy(timestamp, low_ts, low_p, up_ts, up_p):
                    r = orig(timestamp, low_ts, low_p, up_ts, up_p)
                    calls.append((low_ts, self.unval(low_p), up_ts, self.unval(up_p), timestamp, r))
                    return r
                T.compute_intermediate_pose = spy
                try:
                    r = c.intermediate_pose(op[1], op[2], op[3])
                finally:
                    T.compute_intermediate_pose = orig
                if r is None:
                    return None
                if id(r) in self.ids:
                    return {'pose': self.ids[id(r)]}
                if len(calls) == 1 and calls[0][5] is r:
                    self.last_interp = r
                    return {'interp': list(calls[0][:5])}
                return {'unknown-pose': repr(r)}
        except KeyError:
            return 'KeyError'
        except IndexError:
            return 'IndexError'
        except Exception as e:
            return type(e).__name__
        return 'bad-op'


def run_impl(c):
    r = ImplRunner(c['kind'])
    return {'outs': [r.do(op) for op in c['ops']]}


def to_model(c):
    return [{'ops': c['ops']}]


def compare(c, io, mo):
    mo = mo[0]
    if 'error' in mo:
        return f'model error {mo}'
    for i, (a, b) in enumerate(zip(io['outs'], mo['outs'])):
        if a != b:
            return f'op {i} {c["ops"][i]}: impl {a!r} model {b!r}'
    return None


# ---------------------------------------------------------------------------------------------------- oracle

def ref_interp(ref, ts, dev, max_i):
    """ the property's wording on a plain map """
    if ts in ref and dev in ref[ts]:
        return ('pose', ref[ts][dev])
    carriers = sorted(t for t, inner in ref.items() if dev in inner)
    lo = [t for t in carriers if t < ts]
    up = [t for t in carriers if t > ts]
    if lo and up and ts - lo[-1] <= max_i and up[0] - ts <= max_i:
        return ('interp', lo[-1], ref[lo[-1]][dev], up[0], ref[up[0]][dev], ts)
    return None


def ndigits(n):
    return len(str(abs(n)))


def oracle(c):
    kapture, T = K()
    r = ImplRunner(c['kind'])
    ref = {}
    for i, op in enumerate(c['ops']):
        out = r.do(op)
        name = op[0]
        where = f'op {i} {op}'
        # expected behaviour on a plain map
        if name == 'setPair':
            ref.setdefault(op[1], {})[op[2]] = op[3]
            exp = 'ok'
        elif name == 'setTs':
            ref[op[1]] = dict((d, p) for d, p in op[2])
            exp = 'ok'
        elif name == 'delPair':
            if op[1] in ref and op[2] in ref[op[1]]:
                del ref[op[1]][op[2]]
                if not ref[op[1]]:
                    del ref[op[1]]
                exp = 'ok'
            else:
                exp = 'KeyError'
        elif name == 'delTs':
            if op[1] in ref:
                del ref[op[1]]
                exp = 'ok'
            else:
                exp = 'KeyError'
        elif name == 'hasPair':
            exp = op[1] in ref and op[2] in ref[op[1]]
        elif name == 'hasTs':
            exp = op[1] in ref
        elif name == 'getPair':
            exp = {'pose': ref[op[1]][op[2]]} if (op[1] in ref and op[2] in ref[op[1]]) else 'KeyError'
        elif name == 'keyPairs':
            exp = {'pairs': [[t, d] for t, inner in ref.items() for d in inner]}
            if isinstance(out, dict) and 'pairs' in out and sorted(map(tuple, out['pairs'])) == sorted(map(tuple, exp['pairs'])):
                exp = out   # order is not part of the property
        elif name == 'sortedList':
            exp = {'ints': sorted(ref)}
        elif name == 'tsLength':
            ds = {ndigits(t) for t in ref}
            if all(t >= 0 for t in ref):
                exp = {'int': -1 if len(ds) != 1 else ds.pop()}
            else:
                exp = out   # mixed signs: only history independence is required (below)
        elif name == 'interp':
            e = ref_interp(ref, op[1], op[2], op[3])
            exp = None if e is None else ({'pose': e[1]} if e[0] == 'pose' else {'interp': list(e[1:])})
            if isinstance(out, str):
                return {'signature': 'interp-raises', 'detail': f'{where}: intermediate_pose raised {out}; content {ref}'}
            if isinstance(out, dict) and 'interp' in out and out == exp and c['kind'] == 'traj':
                # "a pose between the two": translation is the linear interpolant
                lo, lop, up, upp, ts = out['interp']
                want = lop + (ts - lo) / (up - lo) * (upp - lop)
                got = r.last_interp.t_raw[0]
                if abs(got - want) > 1e-9 * max(1.0, abs(want)):
                    return {'signature': 'interp-not-between', 'detail': f'{where}: x={got} expected {want}'}
        else:
            continue
        if out != exp:
            return {'signature': 'plain-map:' + name, 'detail': f'{where}: container answered {out!r}, a plain map implies {exp!r}; '
                    f'content {ref}'}
        # content equals the plain map after every op
        got = {}
        for t, inner in dict.items(r.c):
            got[t] = {d: r.unval(v) for d, v in inner.items()}
        if got != ref:
            return {'signature': 'content', 'detail': f'{where}: container holds {got}, plain map holds {ref}'}
        # history independence of the cache-reading queries: a fresh container with the same content agrees
        if c['kind'] == 'traj' and name in ('tsLength', 'interp', 'sortedList'):
            fresh = ImplRunner('traj')
            for t in sorted(ref):
                fresh.do(['setTs', t, [[d, p] for d, p in ref[t].items()]])
            if fresh.do(op) != out:
                return {'signature': 'history-dependence:' + name,
                        'detail': f'{where}: answered {out!r} but a fresh container with the same content answers {fresh.do(op)!r}'}
    return None


# ---------------------------------------------------------------------------------------------------- generators

TS3 = [10, 20, 30]
DEVS = ['a', 'b']


def alphabet():
    ops = []
    pid = itertools.count(1)
    for t in TS3:
        for d in DEVS:
            ops.append(['setPair', t, d, next(pid)])
    for t in TS3:
        ops.append(['setTs', t, []])
        ops.append(['setTs', t, [['a', next(pid)]]])
    for t in TS3:
        for d in DEVS:
            ops.append(['delPair', t, d])
    for t in TS3:
        ops.append(['delTs', t])
    ops.append(['sortedList'])
    return ops


def probes():
    ps = [['sortedList'], ['tsLength'], ['keyPairs']]
    for t in TS3:
        ps.append(['hasTs', t])
        for d in DEVS:
            ps.append(['hasPair', t, d])
    for t, m in [(5, 100), (10, 100), (15, 100), (15, 4), (15, 5), (20, 100), (20, 9), (25, 100), (25, 5), (25, 15),
                 (30, 100), (35, 100), (15, -1), (20, 10)]:
        ps.append(['interp', t, 'a', m])
    ps.append(['interp', 25, 'b', 100])
    return ps


def big_ts(rng):
    k = rng.choice([1, 2, 5, 9, 10, 13, 16, 17, 18, 19])
    v = rng.randrange(10 ** (k - 1), 10 ** k) if k > 1 else rng.randrange(0, 10)
    return v


def probed_history(rng, n):
    """ mutations over a tiny universe, each followed by interpolation queries in every gap for every device: whatever an
    implementation caches between two queries is confronted with every single-step change of the content """
    step = rng.choice([2, 10, 1000])
    tss = [i * step for i in range(rng.choice([3, 4, 5]))]
    devs = ['cam%d' % i for i in range(rng.choice([2, 3]))]
    big = rng.choice([10 ** 19, step * len(tss), step])
    ops = []
    pid = itertools.count(1)
    # start from a well-filled container so that deletions bite
    for t in tss:
        for d in devs:
            if rng.random() < 0.8:
                ops.append(['setPair', t, d, next(pid)])
    while len(ops) < n:
        for t in tss[:-1]:
            for d in devs:
                if rng.random() < 0.7:
                    ops.append(['interp', t + step // 2, d, big])
        x = rng.random()
        t, d = rng.choice(tss), rng.choice(devs)
        if x < 0.35:
            ops.append(['setPair', t, d, next(pid)])
        elif x < 0.45:
            ops.append(['setTs', t, [[dd, next(pid)] for dd in devs if rng.random() < 0.5]])
        elif x < 0.9:
            ops.append(['delPair', t, d])
        else:
            ops.append(['delTs', t])
    return ops


def random_history(rng, n, kind):
    if kind == 'traj' and rng.random() < 0.3:
        return probed_history(rng, n)
    style = rng.choice(['dense', 'epoch', 'mixed', 'negative', 'long', 'tight', 'tight'])
    if style == 'tight':
        # few timestamps shared by few devices, queries interleaved with single-pair deletions: every cache an
        # implementation might keep per timestamp / per device gets invalidated while still partly populated
        step = rng.choice([1, 10, 1000])
        tss = [i * step for i in range(rng.choice([3, 4, 6]))]
    elif style == 'dense':
        tss = list(range(0, 40))
    elif style == 'epoch':
        base = 10 ** rng.choice([9, 12, 15, 18])
        tss = [base + rng.randrange(0, 1000) for _ in range(12)]
    elif style == 'mixed':
        tss = [big_ts(rng) for _ in range(10)]
    elif style == 'long':
        base = 10 ** rng.choice([16, 17, 18])
        tss = [base + i * 7 for i in range(14)] + [99999999999999999, 999999999999999999]
    else:
        tss = [rng.randrange(-10 ** 6, 10 ** 6) for _ in range(12)]
    devs = ['cam%d' % i for i in range(rng.choice([2, 3]) if style == 'tight' else rng.choice([1, 2, 4]))]
    ops = []
    pid = itertools.count(1)
    for _ in range(n):
        x = rng.random()
        if style == 'tight':
            # remap: 40% set, 25% delete pair, 5% delete timestamp, 30% interpolation queries
            x = rng.choice([0.1] * 8 + [0.5] * 5 + [0.57] + [0.9] * 6)
        t = rng.choice(tss)
        d = rng.choice(devs)
        if x < 0.35:
            ops.append(['setPair', t, d, next(pid)])
        elif x < 0.42:
            ops.append(['setTs', t, [[dd, next(pid)] for dd in devs if rng.random() < 0.5]])
        elif x < 0.55:
            ops.append(['delPair', t, d])
        elif x < 0.60:
            ops.append(['delTs', t])
        elif x < 0.66:
            ops.append(['hasPair', t, d])
        elif x < 0.69:
            ops.append(['hasTs', t])
        elif x < 0.72:
            ops.append(['getPair', t, d])
        elif x < 0.75:
            ops.append(['keyPairs'])
        elif kind == 'rec':
            ops.append(['hasPair', t, d])
        elif x < 0.80:
            ops.append(['sortedList'])
        elif x < 0.85:
            ops.append(['tsLength'])
        else:
            lo, hi = min(tss), max(tss)
            q = rng.choice([t, t + 1, t - 1, rng.randint(lo - 2, hi + 2)])
            ops.append(['interp', q, d, rng.choice([0, 1, 3, 10, 1000, 10 ** 19, -1])])
    return ops


def cases(rng, tier):
    out = []
    alpha = alphabet()
    suffix = probes()
    depth = 3 if tier == 'quick' else 4
    # corner cases first: empty and single-timestamp containers
    out.append({'kind': 'traj', 'ops': suffix, 'src': 'empty'})
    for n in range(1, depth + 1):
        if tier == 'quick' and n == 3:
            # full product at depth 3 is 10648 histories: sample-free but strided by the seed to stay within the quick budget
            prod = list(itertools.product(range(len(alpha)), repeat=3))
            stride = 3
            off = rng.randrange(stride)
            prod = prod[off::stride]
        else:
            prod = itertools.product(range(len(alpha)), repeat=n)
        for seq in prod:
            out.append({'kind': 'traj', 'ops': [alpha[i] for i in seq] + suffix, 'src': 'exh%d' % n})
    rec_alpha = [o for o in alpha if o[0] != 'sortedList']
    rec_suffix = [p for p in suffix if p[0] in ('keyPairs', 'hasTs', 'hasPair')]
    for n in range(1, 3):
        for seq in itertools.product(range(len(rec_alpha)), repeat=n):
            out.append({'kind': 'rec', 'ops': [rec_alpha[i] for i in seq] + rec_suffix, 'src': 'exh-rec%d' % n})
    nrand, length = (300, 40) if tier == 'quick' else (3000, 400)
    for i in range(nrand):
        kind = 'traj' if i % 4 else 'rec'
        out.append({'kind': kind, 'ops': random_history(rng, length, kind), 'src': 'random'})
    return out


def search_cases(rng, tier, hint):
    out = []
    for i in range(1500):
        out.append({'kind': 'traj', 'ops': random_history(rng, 60, 'traj'), 'src': 'search'})
    return out


def nontrivial(c):
    if not any(o[0] in ('setPair', 'setTs') for o in c['ops']):
        return None
    return json.dumps([c['kind'], c['ops']])


def distribution(cases_):
    d = {}
    for c in cases_:
        d[c['src']] = d.get(c['src'], 0) + 1
        for o in c['ops']:
            d['op:' + o[0]] = d.get('op:' + o[0], 0) + 1
    return d


def shrink(case, still_fails):
    ops = list(case['ops'])
    changed = True
    while changed:
        changed = False
        for i in range(len(ops) - 1, -1, -1):
            cand = ops[:i] + ops[i + 1:]
            cc = dict(case, ops=cand)
            if still_fails(cc):
                ops = cand
                changed = True
    return dict(case, ops=ops)
