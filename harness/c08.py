"""
C08 — dataset comparison is a true equality: symmetric and sensitive to every part.
Correspondence: kapture.algo.compare.equal_kapture(a, b) and (b, a) on a generated dataset and a single-entry mutation of it
(add / remove / alter in any of the 18 parts, on either side, parts present on one side only), versus Model/C08.lean walking
the list of compared attributes GENERATED from equal_kapture, with closeness verdicts computed by the harness from the stated
tolerances (independently of compare.py).
Oracle (implementation only): copy and saved+reloaded dataset compare equal; swapped arguments give the same answer; every
mutation beyond tolerance is answered False, every float change well inside tolerance True.
"""
import copy
import json
import math
import os
import shutil
import tempfile

import numpy as np

import kgen
import mergecommon as mc

ID = 'C08'
TITLE = 'Dataset comparison is a true equality: symmetric and sensitive to every part'
GEN = ['ComparedParts']
RULE = ('each case = a generated dataset (every part present with probability 0.85) and one mutation: none (copy), reload, or '
        'add/remove/alter of one entry of one of the 18 parts (floats altered either by <= tol/4 or >= 4 tol), or a part made '
        'absent on one side, applied to either argument; distinct non-trivial = distinct (part, mutation kind, side) x dataset')
ASSUMPTIONS = [
    'closeness of poses (1e-5 on translation distance and rotation angle), camera parameters and coordinates (numpy.isclose '
    'defaults) is evaluated by the harness from those stated tolerances; generators stay a factor 4 away from the thresholds, '
    'where numpy.isclose is asymmetric (band of relative width ~1e-5)',
    'NaN values are outside the quantifier (finite floats)',
]
TRUSTED = ['kgen.py dataset generator']
PARTS = kgen.PART_NAMES


def kap():
    import kapture
    return kapture


# ---------------------------------------------------------------------------------------------------- mutations

BIG = {'t': 1e-3, 'r': 1e-2, 'cam': 1e-2, 'pt': 1e-2}
TINY = {'t': 1e-7, 'r': 1e-8, 'cam': 1e-10, 'pt': 1e-11}


def bump(h, delta):
    x = kgen.F(h)
    y = x + delta
    if y == x:                      # |x| so large that the increment is absorbed
        y = x * 2.0 if abs(x) < 1e307 else x / 2.0
    return kgen.H(y)


def pick_pos(rng, n):
    """ an index into a sorted sequence: first, last or anywhere, equally likely (comparisons that walk two sorted
    sequences in parallel are position-sensitive: an entry that sorts last is the one a truncating walk misses) """
    if _FORCE[0] is not None:
        return 0 if _FORCE[0] == 'first' else n - 1
    return rng.choice([0, n - 1, rng.randrange(n)])


_FORCE = [None]     # 'first' | 'last' while positional_mutants() enumerates; None for random mutation


def edge_name(rng, lo, hi):
    if _FORCE[0] is not None:
        return lo if _FORCE[0] == 'first' else hi
    return rng.choice([hi, lo])


def positional_mutants(d, rng):
    """ deterministic family: for every present part and for kind in {add, remove}, the entry that sorts FIRST and the
    entry that sorts LAST inside an existing group """
    out = []
    for part in PARTS:
        if d[part] is None:
            continue
        for kind in ('add', 'remove'):
            for pos in ('first', 'last'):
                _FORCE[0] = pos
                try:
                    m, info = mutate(d, rng, part, kind)
                finally:
                    _FORCE[0] = None
                if m is not None and m != d:
                    info['pos'] = pos
                    out.append({'d': d, 'other': m, 'mode': 'mut', 'info': info, 'side': rng.choice(['a', 'b'])})
    if d['sensors']:
        # one more mutant per dataset: the camera MODEL of a camera / depth sensor that is NOT the first sensor in identifier order
        # (same identifier, name, sensor type and numbers)
        sids = sorted(d['sensors'])
        cand = [sid for sid in sids[1:] if d['sensors'][sid]['type'] in ('camera', 'depth') and d['sensors'][sid]['params']]
        if cand:
            m = copy.deepcopy(d)
            sp = m['sensors'][cand[-1]]
            same = {'PINHOLE': 'SIMPLE_RADIAL', 'SIMPLE_RADIAL': 'PINHOLE', 'RADIAL': 'FOV', 'FOV': 'RADIAL',
                    'OPENCV': 'OPENCV_FISHEYE', 'OPENCV_FISHEYE': 'OPENCV'}
            old = sp['params'][0]
            if old in same:
                sp['params'] = [same[old]] + list(sp['params'][1:])
            elif old == 'SIMPLE_PINHOLE':
                sp['params'] = ['PINHOLE'] + list(sp['params'][1:4]) + [sp['params'][3]] + list(sp['params'][4:])
            else:
                sp['params'] = ['SIMPLE_PINHOLE'] + list(sp['params'][1:3]) + ['500', '320', '240']
            out.append({'d': d, 'other': m, 'mode': 'mut', 'side': rng.choice(['a', 'b']),
                        'info': {'part': 'sensors', 'kind': 'alter', 'expect_equal': False, 'pos': 'model-not-first'}})
    for kind, fields in (('descriptors', ('keypoints_type', 'metric_type')), ('global_features', ('metric_type',))):
        # one more mutant per dataset and header field: a descriptor set attached to ANOTHER keypoints type / with another metric,
        # everything else (name, element type, size, images) the same
        for field in fields:
            if d[kind]:
                m = copy.deepcopy(d)
                t = sorted(m[kind])[-1]
                others = [k for k in (m['keypoints'] or {}) if k != m[kind][t].get(field)] if field == 'keypoints_type' else []
                m[kind][t][field] = others[0] if others else str(m[kind][t].get(field)) + '_x'
                out.append({'d': d, 'other': m, 'mode': 'mut', 'side': rng.choice(['a', 'b']),
                            'info': {'part': kind, 'kind': 'alter', 'expect_equal': False, 'pos': 'header:' + field}})
    if d['observations']:
        # one more mutant per dataset with observations: an existing (image, feature) pair listed once more for its point
        _FORCE[0] = 'dup'
        try:
            m, info = mutate(d, rng, 'observations', 'add')
        finally:
            _FORCE[0] = None
        if m is not None and m != d:
            info['pos'] = 'dup'
            out.append({'d': d, 'other': m, 'mode': 'mut', 'info': info, 'side': rng.choice(['a', 'b'])})
    return out


def mutate(d, rng, part=None, kind=None):
    """ returns (mutated description, info) or (None, None) when nothing to mutate """
    d = copy.deepcopy(d)
    part = part or rng.choice([p for p in PARTS if d[p] is not None] or ['sensors'])
    kind = kind or rng.choice(['alter', 'alter', 'remove', 'add', 'absent'])
    mag = rng.choice(['big', 'big', 'tiny'])
    expect_equal = False
    v = d[part]
    if kind == 'absent':
        if part == 'sensors':
            return None, None
        d[part] = None
        return d, {'part': part, 'kind': 'absent', 'expect_equal': False}
    if part == 'sensors':
        ids = list(v)
        sid = rng.choice(ids)
        if kind == 'remove':
            if len(ids) < 2:
                return None, None
            del v[sid]
        elif kind == 'add':
            v['zz_new'] = {'type': 'wifi', 'params': [], 'name': None}
        else:
            s = v[sid]
            what = rng.choice(['name', 'type', 'param', 'model'])
            if what == 'model' and s['type'] in ('camera', 'depth') and s['params']:
                # same identifier, name, sensor type and numbers: only the camera MODEL differs (same parameter count where
                # another model has it, one more parameter otherwise)
                same = {'PINHOLE': 'SIMPLE_RADIAL', 'SIMPLE_RADIAL': 'PINHOLE', 'RADIAL': 'FOV', 'FOV': 'RADIAL',
                        'OPENCV': 'OPENCV_FISHEYE', 'OPENCV_FISHEYE': 'OPENCV'}
                old = s['params'][0]
                if old in same:
                    s['params'] = [same[old]] + list(s['params'][1:])
                elif old == 'SIMPLE_PINHOLE':
                    s['params'] = ['PINHOLE'] + list(s['params'][1:4]) + [s['params'][3]] + list(s['params'][4:])
                else:
                    s['params'] = ['SIMPLE_PINHOLE'] + list(s['params'][1:3]) + ['500', '320', '240']
            elif what == 'name':
                s['name'] = (s['name'] or '') + '_x'
            elif what == 'type' and s['type'] not in ('camera', 'depth'):
                s['type'] = 'odometry' if s['type'] != 'odometry' else 'wifi'
            elif s['type'] in ('camera', 'depth') and len(s['params']) > 1:
                i = rng.randrange(1, len(s['params']))
                delta = (BIG if mag == 'big' else TINY)['cam'] * max(1.0, abs(float(s['params'][i])))
                x = float(s['params'][i]) + delta
                s['params'][i] = str(int(x)) if float(x).is_integer() else str(x)
                expect_equal = mag == 'tiny'
            else:
                s['params'] = list(s['params']) + ['extra']
    elif part == 'rigs':
        rid = rng.choice(list(v))
        dev = rng.choice(list(v[rid]))
        if kind == 'remove':
            if sum(len(m) for m in v.values()) < 2:
                return None, None
            del v[rid][dev]
            if not v[rid]:
                del v[rid]
        elif kind == 'add':
            v[rid]['zz_new'] = kgen.gen_pose(rng, partial=False)
        else:
            expect_equal = alter_pose(v[rid][dev], rng, mag)
    elif part == 'trajectories':
        if not v:
            kind = 'add'
        if kind == 'add':
            if v and (_FORCE[0] is not None or rng.random() < 0.6):
                # a new device inside an EXISTING timestamp (first, last or any), sorting before or after the others
                tss = sorted({e[0] for e in v})
                v.append([tss[pick_pos(rng, len(tss))], edge_name(rng, '00_dev', 'zz_dev'), kgen.gen_pose(rng, partial=False)])
            else:
                v.append([10 ** 6 + rng.randrange(100), next(iter(d['sensors'])), kgen.gen_pose(rng, partial=False)])
        elif kind == 'remove':
            order = sorted(range(len(v)), key=lambda i: (v[i][0], v[i][1]))
            v.pop(order[pick_pos(rng, len(v))])
        else:
            e = rng.choice(v)
            w = rng.choice(['pose', 'ts', 'dev'])
            if w == 'ts':
                e[0] += 10 ** 7
            elif w == 'dev':
                e[1] = e[1] + '_x'
            else:
                expect_equal = alter_pose(e[2], rng, mag)
    elif part.startswith('records_'):
        if not v:
            kind = 'add'
        if kind == 'add':
            dev = next(iter(d['sensors']))
            proto = {'records_camera': 'new.jpg', 'records_depth': 'new.depth', 'records_lidar': 'new.pcd',
                     'records_wifi': {'AA': [2400, kgen.H(-50.0), 'n', 0, 0]}, 'records_bluetooth': {'BB': [kgen.H(-60.0), 'b']},
                     'records_gnss': [kgen.H(1.0), kgen.H(2.0), kgen.H(3.0), 5, kgen.H(0.5)]}.get(
                part, [kgen.H(1.0), kgen.H(2.0), kgen.H(3.0)])
            r = rng.random() if _FORCE[0] is None else (0.0 if not isinstance(proto, dict) or rng.random() < 0.5 else 0.5)
            if v and r < 0.4:
                tss = sorted({e[0] for e in v})
                v.append([tss[pick_pos(rng, len(tss))], edge_name(rng, '00_dev', 'zz_dev'), proto])
            elif v and r < 0.6 and isinstance(proto, dict):
                # one more access point / beacon inside an existing scan
                order = sorted(range(len(v)), key=lambda i: (v[i][0], v[i][1]))
                e = v[order[pick_pos(rng, len(v))]]
                e[2][edge_name(rng, '00:00', 'zz:zz')] = copy.deepcopy(next(iter(proto.values())))
            else:
                v.append([10 ** 6 + rng.randrange(100), dev, proto])
        elif kind == 'remove':
            order = sorted(range(len(v)), key=lambda i: (v[i][0], v[i][1]))
            e = v[order[pick_pos(rng, len(v))]]
            if isinstance(e[2], dict) and len(e[2]) > 1 and rng.random() < 0.5:  # one access point of the scan
                ks = sorted(e[2])
                del e[2][ks[pick_pos(rng, len(ks))]]
            else:
                v.remove(e)
        else:
            e = rng.choice(v)
            if isinstance(e[2], str):
                e[2] = 'x_' + e[2]
            elif isinstance(e[2], dict):
                k = rng.choice(list(e[2]))
                if rng.random() < 0.5:
                    e[2][k + '_x'] = e[2].pop(k)
                else:
                    val = e[2][k]
                    i = [j for j, x in enumerate(val) if isinstance(x, str) and x.startswith(('0x', '-0x'))][0]
                    val[i] = bump(val[i], 1.0)
            else:
                i = rng.randrange(len(e[2]))
                e[2][i] = bump(e[2][i], 1.0) if isinstance(e[2][i], str) else e[2][i] + 1
    elif part in ('keypoints', 'descriptors', 'global_features'):
        t = rng.choice(list(v))
        if kind == 'add':
            v[t]['images'] = sorted(v[t]['images'] + ['zz_new.jpg'])
        elif kind == 'remove':
            if len(v[t]['images']) < 2:
                del v[t]
                if not v:
                    d[part] = None
            else:
                v[t]['images'].pop(rng.randrange(len(v[t]['images'])))
        else:
            w = rng.choice([k for k in v[t] if k not in ('images', 'dtype_instance')])     # the same element type, spelt as an instance, is no change
            if w == 'dsize':
                v[t]['dsize'] += 1
            elif w == 'dtype':
                v[t]['dtype'] = 'float64' if v[t]['dtype'] != 'float64' else 'float32'
            elif isinstance(v[t][w], bool):
                v[t][w] = not v[t][w]
            elif isinstance(v[t][w], str):
                v[t][w] = v[t][w] + '_x'
            else:
                v[t][w] = v[t][w] + 1
    elif part == 'matches':
        t = rng.choice(list(v))
        if kind == 'add':
            v[t].append(['zz_a.jpg', 'zz_b.jpg'])
        elif kind == 'remove':
            v[t].pop(rng.randrange(len(v[t])))
        else:
            v[t][rng.randrange(len(v[t]))][1] += '_x'
    elif part == 'observations':
        if not v:
            kind = 'add'
        if kind == 'add':
            kt = next(iter(d['keypoints'])) if d['keypoints'] else 'sift'
            if v and (_FORCE[0] == 'dup' or (_FORCE[0] is None and rng.random() < 0.25)):
                # the SAME (image, feature) pair listed once more for its point (Observations.add appends without
                # de-duplication and the text format carries the repeat): only the multiplicity differs
                v.append(list(rng.choice(v)))
            elif v and (_FORCE[0] is not None or rng.random() < 0.7):
                # one more observation on an EXISTING point (lowest, highest or any id), image sorting first or last
                order = sorted(range(len(v)), key=lambda i: tuple(map(str, v[i])))
                e = v[order[pick_pos(rng, len(v))]]
                v.append([e[0], e[1], edge_name(rng, '00_new.jpg', 'zz_new.jpg'), 3])
            else:
                v.append([0, kt, 'zz_new.jpg', 3])
        elif kind == 'remove':
            order = sorted(range(len(v)), key=lambda i: (v[i][0], v[i][1], v[i][2], v[i][3]))
            v.pop(order[pick_pos(rng, len(v))])
        else:
            e = rng.choice(v)
            i = rng.randrange(4)
            e[i] = e[i] + 1 if isinstance(e[i], int) else e[i] + '_x'
    elif part == 'points3d':
        rows = v['rows']
        if kind == 'add' or not rows:
            rows.append([kgen.H(1.0)] * v['cols'])
        elif kind == 'remove':
            rows.pop(rng.randrange(len(rows)))
        else:
            r = rng.choice(rows)
            i = rng.randrange(len(r))
            delta = (BIG if mag == 'big' else TINY)['pt'] * max(1.0, abs(kgen.F(r[i])))
            r[i] = bump(r[i], delta)
            expect_equal = mag == 'tiny'
    return d, {'part': part, 'kind': kind, 'expect_equal': expect_equal}


def alter_pose(p, rng, mag):
    """ returns True when the alteration is well inside the tolerance """
    which = rng.choice([k for k in ('r', 't') if p[k] is not None] or ['none'])
    if which == 'none':
        p['t'] = [kgen.H(1.0)] * 3
        return False
    if rng.random() < 0.15:
        p[which] = None
        return False
    if which == 't':
        i = rng.randrange(3)
        p['t'][i] = bump(p['t'][i], (BIG if mag == 'big' else TINY)['t'])
        return mag == 'tiny'
    # rotate by a small angle about x: q' = q * (cos a/2, sin a/2, 0, 0)
    a = (BIG if mag == 'big' else TINY)['r']
    w, x, y, z = [kgen.F(h) for h in p['r']]
    c, s = math.cos(a / 2), math.sin(a / 2)
    q = [w * c - x * s, w * s + x * c, y * c + z * s, -y * s + z * c]
    p['r'] = [kgen.H(v) for v in q]
    return mag == 'tiny'


# ---------------------------------------------------------------------------------------------------- cases

def gen_case(rng):
    opts = kgen.Opts(dtype_instances=0.3, p_part=0.85, id_pool=3, fancy_ids=rng.random() < 0.3, max_rows=4, image_pool=4, partial_poses=True, histories=True,
                     special_floats=False)
    d = kgen.gen_dataset(rng, opts)
    mode = rng.choice(['copy', 'reload', 'mut', 'mut', 'mut', 'mut', 'mut', 'mut'])
    if d['points3d'] is not None and len(d['points3d']['rows']) >= 2 and rng.random() < 0.15:
        mode = 'copy'
    if mode == 'mut':
        m, info = mutate(d, rng)
        if m is None:
            mode = 'copy'
        else:
            return {'d': d, 'other': m, 'mode': 'mut', 'info': info, 'side': rng.choice(['a', 'b'])}
    if mode == 'copy' and d['points3d'] is not None and len(d['points3d']['rows']) >= 2 and rng.random() < 0.8:
        # two datasets whose point clouds are OVERLAPPING WINDOWS OF ONE BUFFER (rows 0..n-1 and rows 1..n of an (n+1)-row array, as
        # two sub-maps cut from one reconstruction are): same shape, shared memory, different points
        return {'d': d, 'other': None, 'mode': 'copy', 'shared_points': True,
                'info': {'part': 'points3d', 'kind': 'shifted-window', 'expect_equal': False}, 'side': rng.choice(['a', 'b'])}
    return {'d': d, 'other': None, 'mode': mode, 'info': {'part': None, 'kind': mode, 'expect_equal': True}, 'side': 'b'}


def cases(rng, tier):
    n = 300 if tier == 'quick' else 6000
    out = [gen_case(rng) for _ in range(n)]
    opts = kgen.Opts(dtype_instances=0.3, p_part=0.9, id_pool=3, fancy_ids=False, max_rows=4, image_pool=4, partial_poses=True, special_floats=False,
                     histories=True)
    for _ in range(40 if tier == 'quick' else 400):
        out.extend(positional_mutants(kgen.gen_dataset(rng, opts), rng))
    return out


_cache = {}


def run_real(case):
    k = json.dumps(case, sort_keys=True)
    if k in _cache:
        return _cache[k]
    _cache.clear()
    from kapture.algo.compare import equal_kapture
    a = kgen.build(case['d'])
    if case['mode'] == 'reload':
        from kapture.io.csv import kapture_from_dir, get_all_tar_handlers
        base = tempfile.mkdtemp(prefix='c08_')
        try:
            kgen.write_dataset(case['d'], base, 's')
            b = kapture_from_dir(base)
        finally:
            shutil.rmtree(base, ignore_errors=True)
    elif case['mode'] == 'copy':
        b = copy.deepcopy(a)
    else:
        b = kgen.build(case['other'])
    if case.get('shared_points'):
        import numpy as np
        kapture = kap()
        pts = np.asarray(a.points3d, dtype=float)
        buf = np.vstack([pts, pts[-1:] + 1.0])
        a.points3d = kapture.Points3d(buf[:-1])
        b.points3d = kapture.Points3d(buf[1:])
    if case['side'] == 'a':
        a, b = b, a
    res = {}
    before = (kgen.describe(a), kgen.describe(b))
    for name, (x, y) in (('equal', (a, b)), ('equal_swapped', (b, a))):
        try:
            res[name] = bool(equal_kapture(x, y))
        except Exception as e:
            res[name] = 'error:' + type(e).__name__
    res['views'] = (view(a), view(b))
    res['operands_unchanged'] = (kgen.describe(a), kgen.describe(b)) == before    # a comparison only looks
    _cache[k] = res
    return res


def run_impl(case):
    r = run_real(case)
    return {'equal': r['equal'], 'equal_swapped': r['equal_swapped']}


# ---------------------------------------------------------------------------------------------------- views for the model

def view(k):
    """ kapture.Kapture -> {part: {'tbl': ...} | {'coll': ...}} in flatten(is_sorted=True) order """
    kapture = kap()
    d = kgen.describe(k)
    out = {}
    s = d['sensors']
    out['sensors'] = {'tbl': None if s is None else [[[sid], mc.J(['sensor', s[sid]])] for sid in sorted(s)]}
    r = d['rigs']
    out['rigs'] = {'tbl': None if r is None else [[[rid, dev], mc.J(['pose', r[rid][dev]])] for rid in sorted(r) for dev in sorted(r[rid])]}
    t = d['trajectories']
    out['trajectories'] = {'tbl': None if t is None else [[[str(ts), dev], mc.J(['pose', p])] for ts, dev, p in t]}
    for part in kgen.RECORD_FILE_KINDS:
        v = d[part]
        out[part] = {'tbl': None if v is None else [[[str(ts), dev], p] for ts, dev, p in v]}
    for part in ('records_wifi', 'records_bluetooth'):
        v = d[part]
        out[part] = {'tbl': None if v is None else [[[str(ts), dev, b], mc.J(sig[b])] for ts, dev, sig in v for b in sorted(sig)]}
    for part in ['records_gnss'] + kgen.RECORD_XYZ_KINDS:
        v = d[part]
        out[part] = {'tbl': None if v is None else [[[str(ts), dev], mc.J(x)] for ts, dev, x in v]}
    for part in ('keypoints', 'descriptors', 'global_features'):
        v = d[part]
        out[part] = {'coll': None if v is None else [[ty, mc.J({k2: x for k2, x in cfg.items() if k2 != 'images'}), cfg['images']]
                                                      for ty, cfg in v.items()]}
    m = d['matches']
    out['matches'] = {'coll': None if m is None else [[ty, '', [a + '|' + b for a, b in ps]] for ty, ps in m.items()]}
    o = d['observations']
    out['observations'] = {'tbl': None if o is None else [[[str(i), kt, img, str(f)], ''] for i, kt, img, f in o]}
    p = d['points3d']
    out['points3d'] = {'tbl': None if p is None else [[['shape'], f'{len(p["rows"])}x{p["cols"]}']] +
                       [[[str(i)], mc.J(['row', row])] for i, row in enumerate(p['rows'])]}
    return out


def isclose(a, b):
    return abs(a - b) <= 1e-8 + 1e-5 * abs(b)


def spec_close(va, vb):
    """ closeness of two value tokens according to the stated tolerances (independent of compare.py) """
    if va == vb:
        return True
    try:
        a, b = json.loads(va), json.loads(vb)
    except Exception:
        return False
    if not (isinstance(a, list) and isinstance(b, list) and a and b and a[0] == b[0]):
        return False
    if a[0] == 'pose':
        pa, pb = a[1], b[1]
        if (pa['r'] is None) != (pb['r'] is None) or (pa['t'] is None) != (pb['t'] is None):
            return False
        if pa['t'] is not None:
            ta, tb = [kgen.F(h) for h in pa['t']], [kgen.F(h) for h in pb['t']]
            if math.sqrt(sum((x - y) ** 2 for x, y in zip(ta, tb))) > 1e-5:
                return False
        if pa['r'] is not None:
            qa, qb = [kgen.F(h) for h in pa['r']], [kgen.F(h) for h in pb['r']]
            dot = abs(sum(x * y for x, y in zip(qa, qb))) / math.sqrt(sum(x * x for x in qa) * sum(y * y for y in qb))
            if 2 * math.acos(min(1.0, dot)) > 1e-5:
                return False
        return True
    if a[0] == 'row':
        return len(a[1]) == len(b[1]) and all(isclose(kgen.F(x), kgen.F(y)) for x, y in zip(a[1], b[1]))
    if a[0] == 'sensor':
        sa, sb = a[1], b[1]
        if sa['type'] != sb['type'] or (sa['name'] or '') != (sb['name'] or ''):
            return False
        if sa['type'] in ('camera', 'depth'):
            if sa['params'][0] != sb['params'][0] or len(sa['params']) != len(sb['params']):
                return False
            return all(isclose(float(x), float(y)) for x, y in zip(sa['params'][1:], sb['params'][1:]))
        return sa['params'] == sb['params']
    return False


def to_model(case):
    r = run_real(case)
    va, vb = r['views']
    close = []
    for part in va:
        ta, tb = va[part].get('tbl'), vb[part].get('tbl')
        if ta and tb:
            for (ka, xa), (kb, xb) in zip(ta, tb):
                if xa != xb and spec_close(xa, xb):
                    close.append([xa, xb])
    return [{'a': va, 'b': vb, 'close': close}]


def compare(case, io, mo):
    mo = mo[0]
    if 'error' in mo:
        return f'model error {mo}'
    info = case['info']
    if info['part'] == 'records_depth' and info['kind'] != 'absent-none':
        pass
    for k in ('equal', 'equal_swapped'):
        if io[k] != mo[k]:
            return f'{k}: impl {io[k]} model {mo[k]} ({info})'
    return None


def oracle(case):
    r = run_real(case)
    info = case['info']
    for k in ('equal', 'equal_swapped'):
        if isinstance(r[k], str):
            return {'signature': 'raises:' + r[k][6:], 'detail': f'equal_kapture raised {r[k]} ({info})'}
    if not r['operands_unchanged']:
        return {'signature': 'operands-modified', 'detail': f'equal_kapture changed one of the datasets it compared ({info})'}
    if r['equal'] != r['equal_swapped']:
        return {'signature': 'asymmetric', 'detail': f'equal(a,b)={r["equal"]} but equal(b,a)={r["equal_swapped"]} ({info})'}
    if r['equal'] != info['expect_equal']:
        if info['part'] == 'records_depth' and r['equal'] is True:
            return {'signature': 'records-depth-not-compared',
                    'detail': f'datasets differing only in records_depth ({info["kind"]}) compare equal'}
        return {'signature': ('insensitive:' if r['equal'] else 'not-reflexive:') + str(info['part']),
                'detail': f'expected {info["expect_equal"]} got {r["equal"]} for {info}'}
    return None


def nontrivial(case):
    return json.dumps([case['info'], case['side'], sorted(p for p in PARTS if case['d'][p] is not None)], sort_keys=True)


def distribution(cases_):
    d = {}
    for c in cases_:
        i = c['info']
        d[f'{i["kind"]}:{i["part"]}'] = d.get(f'{i["kind"]}:{i["part"]}', 0) + 1
        d['expect_equal' if i['expect_equal'] else 'expect_differ'] = d.get('expect_equal' if i['expect_equal'] else 'expect_differ', 0) + 1
    return d
