"""
C03 — feature, match and depth arrays persist bit-exactly as raw little-endian dumps.
Correspondence: array_to_file / array_from_file, the image_*_to_file / _from_file wrappers, TarHandler.add_array_to_tar /
get_array_from_tar, depth_map_to_file / _from_file, get_features_fullpath, get_matches_fullpath and the directory / tar
listings, versus Model/C03.lean: the exact bytes on disk, the array read back (shape, element size, bits), the path string,
and the image name(s) recovered from the path.
Oracle (implementation only): file size = rows x cols x item size; bytes equal numpy's own little-endian dump of the
array; read-back array has the same dtype, shape and bits; path ends with the documented <image><ext>; listing recovers names.
"""
import json
import os
import shutil
import tempfile

import numpy as np

ID = 'C03'
TITLE = 'Feature, match and depth arrays persist bit-exactly as raw little-endian dumps'
GEN = ['FileNames', 'SpecPaths', 'IoShapes']
RULE = ('each array case draws a dtype from {float16/32/64, int8..64, uint8..64}, rows 0..6, cols 1..8, random bit patterns '
        '(NaN payloads, inf, -0.0 included), a memory layout (C contiguous, Fortran ordered, strided view, big-endian view), a '
        'storage (file, tar or depth), a feature kind and a history (first write / overwrite of a same-shape array read before / '
        'overwrite of a LONGER file / of an array equal as numbers but not in bits); tar reads are followed by the read of a second, '
        'smaller member through the same handler; each path case draws nested / dotted / spaced / unicode image names; distinct '
        'non-trivial = distinct (dtype, layout, storage, rows>0) for arrays and distinct names for paths')
ASSUMPTIONS = [
    'numpy.tofile / tobytes / fromfile / frombuffer are raw row-major dumps of the (converted) array; tarfile stores member bytes verbatim',
    'image names are normalised relative paths (no ".", "..", empty components) not containing the pair separator',
]
TRUSTED = ['numpy view(uintN) as the bit pattern of an element']
DTYPES = ['float16', 'float32', 'float64', 'int8', 'int16', 'int32', 'int64', 'uint8', 'uint16', 'uint32', 'uint64']
# the three after 'sp ace.jpg' are NOT in unicode composed form (e + combining acute as macOS tools write it, ANGSTROM SIGN,
# OHM SIGN) and 'caf\u00e9.jpg' is the composed twin of the first: distinct names, distinct files
NAMES = ['a.jpg', 'dir/sub dir/img.v2.png', 'ünï/çödé.jpg', 'cam0/000.jpg', 'x', 'a.b.c.d', 'deep/1/2/3/4/f.jpeg', 'sp ace.jpg',
         'cafe\u0301.jpg', 'caf\u00e9.jpg', '\u212b/ngstr\u00f6m.png', 'ohm \u2126.jpg',
         'over.lapping/x.jpg', 'im.overlappingX/y.jpg']
KINDS = ['keypoints', 'descriptors', 'global_features']


def kap():
    import kapture
    return kapture


def gen_array(rng):
    dt = rng.choice(DTYPES)
    rows, cols = rng.choice([0, 0, 1, 2, 3, 6]), rng.randint(1, 8)
    item = np.dtype(dt).itemsize
    bits = [rng.getrandbits(8 * item) for _ in range(rows * cols)]
    if np.dtype(dt).kind == 'f' and bits:
        specials = {2: [0x7C00, 0xFC00, 0x7E01, 0x8000], 4: [0x7F800000, 0xFF800000, 0x7FC00001, 0x80000000, 0x7FA00000],
                    8: [0x7FF0000000000000, 0xFFF0000000000000, 0x7FF8000000000001, 0x8000000000000000, 0x7FF4000000000000]}[item]
        for _ in range(rng.randint(0, 2)):
            bits[rng.randrange(len(bits))] = rng.choice(specials)
    rewrite = rng.choice([False, True, True, 'longer', 'twin', 'twin'])
    if rewrite == 'twin' and np.dtype(dt).kind == 'f' and not bits:
        rows = rng.choice([1, 2, 3])
        bits = [rng.getrandbits(8 * item) for _ in range(rows * cols)]
    if rewrite == 'twin' and np.dtype(dt).kind == 'f' and bits:
        # the array written before is EQUAL AS NUMBERS to this one and differs in bits: the sign of its zeros (the history of a
        # re-extraction whose only change is -0.0 for 0.0); some zeros are planted so that there is something to differ in
        for _ in range(rng.randint(1, 3)):
            bits[rng.randrange(len(bits))] = rng.choice([0, 1 << (8 * item - 1)])
    return {'op': 'array', 'dtype': dt, 'rows': rows, 'cols': cols, 'bits': bits,
            'layout': rng.choice(['c', 'f', 'strided', 'bigendian']), 'storage': rng.choice(['file', 'tar', 'depth']), 'rewrite': rewrite,
            'kind': rng.choice(KINDS), 'image': rng.choice(NAMES[:12])}


def cases(rng, tier):
    out = []
    n = 400 if tier == 'quick' else 10000
    for _ in range(n):
        out.append(gen_array(rng))
    # depth maps handed over in ANY element type are stored as float32 (kapture.io.records.depth_map_to_file): small
    # non-negative integers, exact in every type, so the expected bits are those of the same numbers as float32
    for _ in range(n // 10):
        h_, w_ = rng.randint(1, 5), rng.randint(1, 6)
        vals = [rng.randrange(0, 120) for _ in range(h_ * w_)]
        out.append({'op': 'array', 'dtype': 'float32', 'rows': h_, 'cols': w_,
                    'bits': [int(np.array([v], dtype='<f4').view('<u4')[0]) for v in vals],
                    'layout': rng.choice(['c', 'bigendian']), 'storage': 'depthmap', 'rewrite': False, 'kind': 'keypoints',
                    'image': rng.choice(NAMES[:12]),
                    'src_dtype': rng.choice(['float32', 'float64', 'float16', 'uint16', 'int16', 'uint8', 'int8', 'int32', 'uint32', 'int64'])})
    for nme in NAMES:
        for k in KINDS:
            out.append({'op': 'fpath', 'kind': k, 'type': rng.choice(['sift', 'r2d2_WASF-N8_20k']), 'image': nme})
    for a in NAMES[:12]:
        for b in NAMES[:12]:
            if a != b:
                out.append({'op': 'mpath', 'type': 'sift', 'a': a, 'b': b})
    return out


def previous_array(c, a, dt):
    """ what stood at the path before (see `rewrite` in gen_array) """
    if c['rewrite'] == 'twin':
        prev = np.ascontiguousarray(a).astype(dt, copy=True)
        if dt.kind == 'f' and prev.size:
            u = prev.view(np.dtype('u%d' % dt.itemsize))
            zero = (prev == 0)
            u[zero] ^= np.array(1 << (8 * dt.itemsize - 1), dtype=u.dtype)
        return prev
    prev_shape = (a.shape[0] + 3, a.shape[1]) if c['rewrite'] == 'longer' else a.shape
    return np.ones(prev_shape, dtype=dt)


def make_array(c):
    dt = np.dtype(c['dtype'])
    u = np.dtype('u%d' % dt.itemsize)
    base = np.array(c['bits'], dtype=u).reshape((c['rows'], c['cols']))
    a = base.view(dt)
    lay = c['layout']
    if lay == 'f':
        a = np.asfortranarray(a)
    elif lay == 'strided':
        big = np.zeros((c['rows'] * 2 + 1, c['cols'] * 2 + 1), dtype=dt)
        big[::2, ::2][:c['rows'], :c['cols']] = a if a.size else 0
        v = big[::2, ::2][:c['rows'], :c['cols']]
        v.view(u)[...] = base
        a = v
    elif lay == 'bigendian':
        a = a.astype(dt.newbyteorder('>'))     # same VALUES, big-endian in memory
    return a


_cache = {}


def run_real(c):
    k = json.dumps(c, sort_keys=True)
    if k in _cache:
        return _cache[k]
    _cache.clear()
    kapture = kap()
    import kapture.io.features as kf
    import kapture.io.records as kr
    from kapture.io.tar import TarHandler, get_feature_tar_fullpath
    base = tempfile.mkdtemp(prefix='c03_')
    res = {}
    try:
        if c['op'] == 'array':
            a = make_array(c)
            keep = a.copy()
            dt = np.dtype(c['dtype'])
            cls = {'keypoints': kapture.Keypoints, 'descriptors': kapture.Descriptors, 'global_features': kapture.GlobalFeatures}[c['kind']]
            writer = {'keypoints': kf.image_keypoints_to_file, 'descriptors': kf.image_descriptors_to_file,
                      'global_features': kf.image_global_features_to_file}[c['kind']]
            reader = {'keypoints': kf.image_keypoints_from_file, 'descriptors': kf.image_descriptors_from_file,
                      'global_features': kf.image_global_features_from_file}[c['kind']]
            try:
                if c['storage'] == 'file':
                    p = kf.get_features_fullpath(cls, 'T', base, c['image'])
                    if c.get('rewrite'):
                        # history: another array of the SAME shape (same byte size, same second) was written to this path and
                        # read before; and the array a reader returned is modified in place before the next read
                        # ... or a LONGER array was there before (re-extraction with fewer keypoints): nothing of it may remain
                        writer(p, previous_array(c, a, dt))
                        old = reader(p, dt.type, c['cols'])
                        if old.size and old.flags.writeable:
                            old.flat[0] = 1
                    writer(p, a)
                    raw = open(p, 'rb').read()
                    back = reader(p, dt.type, c['cols'])
                    if c.get('rewrite') and back.size and back.flags.writeable:
                        scratch = back.copy()
                        back.fill(0)                      # a caller editing what it was given ...
                        back = reader(p, dt.type, c['cols'])  # ... must not change what the file says
                        del scratch
                elif c['storage'] == 'tar':
                    tp = get_feature_tar_fullpath(cls, 'T', base)
                    os.makedirs(os.path.dirname(tp), exist_ok=True)
                    if c.get('rewrite'):
                        # the same name was written before (re-extraction): the archive keeps both members and the
                        # array read back must be the one written last
                        with TarHandler(tp, 'a') as th:
                            writer(kf.get_features_fullpath(cls, 'T', base, c['image'], th),
                                   previous_array(c, a, dt) if c['rewrite'] == 'twin' else np.zeros((c['rows'] + 2, c['cols']), dtype=dt))
                    other_image = 'other_' + c['image']
                    with TarHandler(tp, 'a') as th:
                        writer(kf.get_features_fullpath(cls, 'T', base, c['image'], th), a)
                        # a second image of the same archive, no larger than the first
                        writer(kf.get_features_fullpath(cls, 'T', base, other_image, th),
                               np.full((max(c['rows'] - 1, 0), c['cols']), 1, dtype=dt))
                    with TarHandler(tp, 'r') as th:
                        member = kf.get_features_fullpath(cls, 'T', base, c['image'], th)
                        raw = th.fid.extractfile(th.content[member[0]]).read()
                        back = reader(member, dt.type, c['cols'])
                        # what a reader returned is the caller's: reading ANOTHER member through the same handler must not change it
                        reader(kf.get_features_fullpath(cls, 'T', base, other_image, th), dt.type, c['cols'])
                elif c['storage'] == 'depthmap':
                    src = np.array(a, dtype=np.float64).astype(np.dtype(c['src_dtype']))
                    if c['layout'] == 'bigendian' and src.dtype.itemsize > 1:
                        src = src.astype(src.dtype.newbyteorder('>'))
                    src_before = src.copy()
                    p = kr.get_depth_map_fullpath(base, c['image'] + '.depth')
                    kr.depth_map_to_file(p, src)
                    raw = open(p, 'rb').read()
                    back = kr.depth_map_from_file(p, (c['cols'], c['rows']))
                    if not (np.array_equal(src_before, src) and src.dtype == src_before.dtype):
                        keep = a.copy() + 1        # reported below as operand-modified
                else:
                    # depth maps: float32 h x w, written by array_to_file directly when already float32
                    p = kr.get_depth_map_fullpath(base, c['image'] + '.depth')
                    from kapture.io.binary import array_to_file, array_from_file
                    if c.get('rewrite'):
                        array_to_file(p, previous_array(c, a, dt).astype(a.dtype))
                        array_from_file(p, dt.type, c['cols'])
                    array_to_file(p, a)
                    raw = open(p, 'rb').read()
                    back = array_from_file(p, dt.type, c['cols'])
                u = np.dtype('u%d' % dt.itemsize)
                res = {'bytes': list(raw), 'back': {'item': int(back.dtype.itemsize), 'rows': int(back.shape[0]), 'cols': int(back.shape[1]),
                                                    'bits': [int(x) for x in np.ascontiguousarray(back).view(u).flatten().tolist()],
                                                    'dtype': back.dtype.name, 'byteorder': back.dtype.byteorder},
                       'unchanged': bool(np.array_equal(keep.view(np.dtype('u%d' % dt.itemsize).newbyteorder(keep.dtype.byteorder)
                                                                   if keep.dtype.byteorder == '>' else u),
                                                         a.view(np.dtype('u%d' % dt.itemsize).newbyteorder(a.dtype.byteorder)
                                                                if a.dtype.byteorder == '>' else u)))}
            except Exception as e:
                res = {'error': type(e).__name__ + ': ' + str(e)[:200]}
        elif c['op'] == 'fpath':
            cls = {'keypoints': kapture.Keypoints, 'descriptors': kapture.Descriptors, 'global_features': kapture.GlobalFeatures}[c['kind']]
            p = kf.get_features_fullpath(cls, c['type'], base, c['image'])
            os.makedirs(os.path.dirname(p), exist_ok=True)
            open(p, 'wb').close()
            listed = sorted(kf.image_ids_from_feature_dirpath(cls, c['type'], base))
            tp = get_feature_tar_fullpath(cls, c['type'], base)
            with TarHandler(tp, 'a') as th:
                member = kf.get_features_fullpath(cls, c['type'], base, c['image'], th)[0]
                th.add_array_to_tar(member, np.zeros((0, 2), dtype=np.float32))
            with TarHandler(tp, 'r') as th:
                tlisted = sorted(kf.image_ids_from_feature_tar(cls, th))
            res = {'path': os.path.relpath(p, base), 'member': member, 'listed': listed, 'tar_listed': tlisted}
        else:
            pair = (c['a'], c['b'])
            p = kf.get_matches_fullpath(pair, c['type'], base)
            os.makedirs(os.path.dirname(p), exist_ok=True)
            open(p, 'wb').close()
            listed = sorted(map(list, kf.matching_pairs_from_dirpath(c['type'], base)))
            tp = get_feature_tar_fullpath(kapture.Matches, c['type'], base)
            with TarHandler(tp, 'a') as th:
                member = kf.get_matches_fullpath(pair, c['type'], base, th)[0]
                th.add_array_to_tar(member, np.zeros((0, 3), dtype=np.float64))
            with TarHandler(tp, 'r') as th:
                tlisted = sorted(map(list, kf.matching_pairs_from_tar(th)))
            res = {'path': os.path.relpath(p, base), 'member': member, 'listed': listed, 'tar_listed': tlisted}
    finally:
        shutil.rmtree(base, ignore_errors=True)
    _cache[k] = res
    return res


def run_impl(c):
    return run_real(c)


def to_model(c):
    if c['op'] == 'array':
        return [{'op': 'array', 'item': int(np.dtype(c['dtype']).itemsize), 'rows': c['rows'], 'cols': c['cols'], 'bits': c['bits']}]
    if c['op'] == 'fpath':
        return [{'op': 'fpath', 'root': 'ROOT', 'kind': c['kind'], 'type': c['type'], 'image': c['image']}]
    return [{'op': 'mpath', 'root': 'ROOT', 'type': c['type'], 'a': c['a'], 'b': c['b']}]


def compare(c, io, mo):
    mo = mo[0]
    if 'error' in io or 'error' in mo:
        return f'errors: impl={io.get("error")} model={mo.get("error")}'
    if c['op'] == 'array':
        if io['bytes'] != mo['bytes']:
            return f'file bytes differ: impl {io["bytes"][:16]}.. model {mo["bytes"][:16]}..'
        b = mo['back']
        if b is None:
            return 'model cannot read its own file back'
        for k in ('item', 'rows', 'cols', 'bits'):
            if io['back'][k] != b[k]:
                return f'read-back {k}: impl {str(io["back"][k])[:80]} model {str(b[k])[:80]}'
        return None
    want_path = mo['path'][len('ROOT/'):]
    if io['path'] != want_path:
        return f'path: impl {io["path"]!r} model {want_path!r}'
    if io['member'] != mo['member']:
        return f'tar member: impl {io["member"]!r} model {mo["member"]!r}'
    if c['op'] == 'fpath':
        if io['listed'] != [mo['image_back']] or io['tar_listed'] != [mo['image_back']]:
            return f'listing: impl {io["listed"]}/{io["tar_listed"]} model {[mo["image_back"]]}'
    else:
        want = [] if mo['pair_back'] is None else [mo['pair_back']]
        if io['listed'] != want or io['tar_listed'] != want:
            return f'pair listing: impl {io["listed"]}/{io["tar_listed"]} model {want}'
    return None


def oracle(c):
    r = run_real(c)
    if 'error' in r:
        return {'signature': 'raises:' + r['error'].split(':')[0], 'detail': r['error']}
    if c['op'] == 'array':
        dt = np.dtype(c['dtype'])
        u = np.dtype('<u%d' % dt.itemsize)
        want = np.array(c['bits'], dtype=u).reshape((c['rows'], c['cols'])).tobytes()
        if len(r['bytes']) != c['rows'] * c['cols'] * dt.itemsize:
            return {'signature': 'file-size', 'detail': f'{len(r["bytes"])} bytes for {c["rows"]}x{c["cols"]} {c["dtype"]}'}
        if bytes(r['bytes']) != want:
            return {'signature': 'not-little-endian-dump', 'detail': f'{c["dtype"]} {c["layout"]} array via {c["storage"]}: '
                    'file is not the row-major little-endian dump'}
        b = r['back']
        if (b['rows'], b['cols']) != (c['rows'], c['cols']) or b['dtype'] != dt.name or b['bits'] != c['bits']:
            return {'signature': 'read-back-differs', 'detail': f'wrote {c["rows"]}x{c["cols"]} {c["dtype"]}, read '
                    f'{b["rows"]}x{b["cols"]} {b["dtype"]}; bits equal: {b["bits"] == c["bits"]}'}
        if not r['unchanged']:
            return {'signature': 'operand-modified', 'detail': 'the array passed to the writer was modified'}
        return None
    ext = {'keypoints': '.kpt', 'descriptors': '.desc', 'global_features': '.gfeat'}.get(c.get('kind'), '.matches')
    if c['op'] == 'fpath':
        want = f'reconstruction/{c["kind"]}/{c["type"]}/{c["image"]}{ext}'
        if r['path'] != want:
            return {'signature': 'path', 'detail': f'{r["path"]!r} is not the documented {want!r}'}
        if r['listed'] != [c['image']] or r['tar_listed'] != [c['image']]:
            return {'signature': 'listing', 'detail': f'listing gives {r["listed"]} / {r["tar_listed"]} for image {c["image"]!r}'}
    else:
        want = f'reconstruction/matches/{c["type"]}/{c["a"]}.overlapping/{c["b"]}.matches'
        if r['path'] != want:
            return {'signature': 'path', 'detail': f'{r["path"]!r} is not the documented {want!r}'}
        if r['listed'] != [[c['a'], c['b']]] or r['tar_listed'] != [[c['a'], c['b']]]:
            return {'signature': 'listing', 'detail': f'listing gives {r["listed"]} / {r["tar_listed"]} for pair {c["a"]!r},{c["b"]!r}'}
    return None


def nontrivial(c):
    if c['op'] == 'array':
        return ('array', c['dtype'], c['layout'], c['storage'], c['rows'] > 0)
    return json.dumps(c, sort_keys=True)


def distribution(cases_):
    d = {}
    for c in cases_:
        d[c['op']] = d.get(c['op'], 0) + 1
        if c['op'] == 'array':
            for k in ('dtype', 'layout', 'storage'):
                d[f'{k}:{c[k]}'] = d.get(f'{k}:{c[k]}', 0) + 1
            d['rows0' if c['rows'] == 0 else 'rows+'] = d.get('rows0' if c['rows'] == 0 else 'rows+', 0) + 1
    return d
