"""
C11 — merged reconstructions keep each observation on the same 3-D point and feature.
Correspondence: merge_points3d_and_observations / merge_points3d (through merge_keep_ids on real datasets with directory- or
tar-stored features) versus Model/C11.lean: merged cloud rows (exact float bits), width, merged observations.
Oracle (implementation only): the merged cloud is the concatenation of the inputs' clouds; every observation of every input
is found on index + offset with the same type/image/feature and designates the same coordinates; counts add up; merged
feature and match files are byte-identical to their first source (C09's file oracle on the same run).
"""
import json
from collections import Counter

import c09
import kgen
import mergecommon as mc

ID = 'C11'
TITLE = 'Merged reconstructions keep each observation on the same 3-D point and feature'
GEN = ['MergePoints']
RULE = ('each case = 1..4 generated reconstructions (records_camera + keypoints forced, points3d / observations / matches each '
        'present or missing per input), 0..12 points per cloud, one width (3 or 6) per case plus a few mixed-width cases, '
        'overlapping image names, per-input tar or directory storage per feature kind; distinct non-trivial = distinct cases where '
        'at least two inputs have points and a later one has observations')
ASSUMPTIONS = [
    'np.vstack is row concatenation and raises ValueError on different widths',
    'inputs without points3d contribute no observations (the code skips them: their indices would designate nothing)',
    'mixed 3/6-column inputs are outside the statement (concatenation undefined); model and code both report ValueError',
]
TRUSTED = ['kgen.py dataset generator and describe()', 'C09 harness run (merge_keep_ids on disk)']


def gen_case(rng, tier):
    n = rng.choice([1, 2, 2, 3, 3, 4])
    mixed = rng.random() < 0.06
    cols = rng.choice([3, 6])
    dsets = []
    for i in range(n):
        opts = kgen.Opts(unordered_pairs=0.3, p_part=rng.choice([0.6, 0.9]), id_pool=2, fancy_ids=False, ts_style='small', max_rows=5,
                         image_pool=4, partial_poses=False, dtypes=['float32'],
                         cols=(rng.choice([3, 6]) if mixed else cols),
                         force_parts={'records_camera', 'keypoints'},
                         forbid_parts={'records_wifi', 'records_bluetooth', 'records_gnss', 'records_accelerometer',
                                       'records_gyroscope', 'records_magnetic', 'records_lidar', 'records_depth', 'rigs'})
        dsets.append(mc.normalise_features(kgen.gen_dataset(rng, opts)))
    tar = [sorted(k for k in ('keypoints', 'descriptors', 'global_features', 'matches') if rng.random() < 0.4) for _ in range(n)]
    skip = ['Observations'] if rng.random() < 0.08 else []
    return {'datasets': dsets, 'skip': skip, 'strategy': 'skip', 'tar': tar, 'via_tool': False}


def cases(rng, tier):
    n = 70 if tier == 'quick' else 1500
    return [gen_case(rng, tier) for _ in range(n)]


def widths(case):
    return {d['points3d']['cols'] for d in case['datasets'] if d['points3d'] is not None}


def run_impl(case):
    r = c09.run_real(case)
    if r['error']:
        return {'error': r['error'].split(':')[0]}
    md = r['merged']
    pts = md['points3d']
    return {'points': None if pts is None else pts['rows'], 'cols': None if pts is None else pts['cols'],
            'obs': None if md['observations'] is None else sorted(md['observations'])}


def to_model(case):
    recons = []
    for d in case['datasets']:
        p = d['points3d']
        recons.append({'points': None if p is None else p['rows'], 'cols': 6 if p is None else p['cols'],
                       'obs': d['observations']})
    return [{'recons': recons, 'pointsOnly': 'Observations' in case['skip']}]


def compare(case, io, mo):
    mo = mo[0]
    if 'error' in io or 'error' in mo:
        return None if io.get('error') == mo.get('error') else f'errors differ: impl={io.get("error")} model={mo.get("error")}'
    # get_new_if_not_empty: an empty cloud / observation table is left unset
    mp = mo['points'] or None
    if (io['points'] or None) != mp:
        return f'points: impl {str(io["points"])[:200]} model {str(mp)[:200]}'
    if mp is not None and io['cols'] != mo['cols']:
        return f'width: impl {io["cols"]} model {mo["cols"]}'
    mobs = sorted(mo['obs']) or None
    if (io['obs'] or None) != mobs:
        return f'observations: impl {str(io["obs"])[:300]} model {str(mobs)[:300]}'
    return None


def oracle(case):
    if len(widths(case)) > 1:
        return None     # outside the statement
    r = c09.run_real(case)
    if r['error']:
        return {'signature': 'raises:' + r['error'].split(':')[0], 'detail': r['error']}
    md = r['merged']
    rows = [] if md['points3d'] is None else md['points3d']['rows']
    expect_rows, expect_obs, off = [], Counter(), 0
    for d in r['inputs']:
        if d['points3d'] is None:
            continue
        mine = d['points3d']['rows']
        for i, kt, img, f in (d['observations'] or []):
            expect_obs[(i + off, kt, img, f)] += 1
            if i < len(mine) and (i + off >= len(rows) or rows[i + off] != mine[i]):
                return {'signature': 'observation-moved', 'detail': f'observation ({i},{kt},{img},{f}) of an input no longer '
                        f'designates coordinates {mine[i]}'}
        expect_rows += mine
        off += len(mine)
    if rows != expect_rows:
        return {'signature': 'points-not-concatenated', 'detail': f'{len(rows)} merged points, concatenation has {len(expect_rows)}'}
    if 'Observations' not in case['skip']:
        got = Counter(tuple(o) for o in (md['observations'] or []))
        if got != expect_obs:
            return {'signature': 'observations-differ', 'detail': f'lost {list((expect_obs - got).elements())[:3]} '
                    f'extra {list((got - expect_obs).elements())[:3]}'}
    f = c09.oracle(case)
    if f is not None and f['signature'].startswith(('feature-file', 'feature-union', 'inputs-modified')):
        return f
    return None


def nontrivial(case):
    with_pts = [i for i, d in enumerate(case['datasets']) if d['points3d'] is not None and d['points3d']['rows']]
    if len(with_pts) >= 2 and any(case['datasets'][i]['observations'] for i in with_pts[1:]):
        return json.dumps(case, sort_keys=True)
    return None


def distribution(cases_):
    d = {}
    for c in cases_:
        d['n=%d' % len(c['datasets'])] = d.get('n=%d' % len(c['datasets']), 0) + 1
        d['widths:' + ','.join(map(str, sorted(widths(c))))] = d.get('widths:' + ','.join(map(str, sorted(widths(c)))), 0) + 1
        for ds in c['datasets']:
            d['points:' + ('none' if ds['points3d'] is None else str(len(ds['points3d']['rows'])))] = \
                d.get('points:' + ('none' if ds['points3d'] is None else str(len(ds['points3d']['rows']))), 0) + 1
            d['obs:' + ('none' if ds['observations'] is None else 'some')] = d.get('obs:' + ('none' if ds['observations'] is None else 'some'), 0) + 1
    return d


shrink = c09.shrink
