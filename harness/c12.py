"""
C12 — a tar-packed feature store equals its directory form; appends are durable.
Correspondence:
  (a) append histories with repeated names through TarHandler('a').add_array_to_tar, written by a SEPARATE PROCESS that is
      killed with SIGKILL right after its k-th completed append (every k = 0..n), then read by a fresh TarHandler('r'):
      visible names, latest bytes and the archive file length versus Model/C12.lean (crashAfter k);
  (b) feature stores of a generated dataset written as directories, then packed into keypoints.tar / descriptors.tar /
      global_features.tar / matches.tar with the standard tarfile module: the dataset loads to the same content both ways and
      every array reads back identical (model: pack_equals_dir); every packed archive is also listed member by member with the
      standard tarfile module (data / hard link / symbolic link) and what TarHandler reads back under each name is compared with
      Model/C12.readL, which resolves link members through the archive the way TarFile.extractfile does.
Oracle (implementation only): after a kill at k, each of the k completed appends is readable as the latest version under its
name; packing changes nothing observable.
"""
import json
import os
import shutil
import signal
import subprocess
import sys
import tarfile
import tempfile

import numpy as np

import kgen
import mergecommon as mc

ID = 'C12'
TITLE = 'A tar-packed feature store equals its directory form; appends are durable'
GEN = ['IoShapes']
RULE = ('kill cases: an append history of n <= 6 (quick) / 20 (thorough) arrays over 1..4 names (overwrites, half of them with the same shape as the array they replace), random shapes incl. '
        'empty arrays and data crossing the 512-byte block size, a writer subprocess SIGKILLed after the k-th completed append for '
        'each k in 0..n; store cases: generated datasets with several feature types, image names with nested folders, packed kind '
        'by kind, a third of them after a de-duplication history (two images of a type sharing one inode, or a symbolic link to the '
        'sibling: stored by tar as link members), a quarter with an EMPTY list of image records. distinct non-trivial = distinct (history, k) with k >= 1, and distinct stores')
ASSUMPTIONS = [
    'that bytes handed to the OS by flush() survive SIGKILL of the writer is an operating-system fact: it is observed on every '
    'run, not proved (the theorem is about the append log)',
    'tarfile member framing: 512-byte header + data padded to 512 (GNU format, names < 100 bytes); end-of-archive blocks are only '
    'written on close',
    'k = 0: a writer killed before any append leaves an empty file, which tarfile refuses to open; nothing was appended, so '
    'nothing is required to be visible',
]
TRUSTED = ['tarfile', 'SIGKILL delivery through os.kill']
PARTIAL = 'durability of flushed bytes under SIGKILL is observed, not proved'

WRITER = r'''
import json, os, signal, sys
sys.path.insert(0, os.environ.get('KAPTURE_REPO', '/repo'))
import numpy as np
from kapture.io.tar import TarHandler
spec = json.load(open(sys.argv[1]))
th = TarHandler(spec['path'], 'a')
for i, (name, data, cols, *layout) in enumerate(spec['appends'][:spec['k']]):
    arr = np.array(data, dtype=np.uint8).reshape((-1, cols)) if cols else np.array(data, dtype=np.uint8).reshape((0, 1))
    if layout and layout[0] == 'F':
        arr = np.asfortranarray(arr)          # same values, column-major in memory (e.g. np.array([xs, ys]).T)
    elif layout and layout[0] == 'S':
        arr = np.repeat(arr, 2, axis=1)[:, ::2]   # same values, strided view
    th.add_array_to_tar(name, arr)
# the k-th append has returned: die without closing anything
os.kill(os.getpid(), signal.SIGKILL)
'''


def gen_history(rng, nmax):
    n = rng.randint(1, nmax)
    names = ['img%d.jpg.kpt' % i for i in range(rng.randint(1, 4))] + ['dir/sub/x.png.kpt']
    out = []
    last_shape = {}
    for _ in range(n):
        name = rng.choice(names)
        cols = rng.choice([1, 2, 4, 128])
        rows = rng.choice([0, 1, 3, 4, 5, 130])
        if rows * cols > 2000:
            rows = 2000 // cols
        if name in last_shape and rng.random() < 0.5:
            # re-extraction of the same image: the SAME shape (same byte size) under the same name, other values
            rows, cols = last_shape[name]
        last_shape[name] = (rows, cols)
        data = [rng.randrange(256) for _ in range(rows * cols)]
        out.append([name, data, cols if rows else 0, rng.choice(['C', 'C', 'F', 'F', 'S'])])
    return out


def cases(rng, tier):
    out = []
    nhist, nmax = (4, 5) if tier == 'quick' else (40, 20)
    for _ in range(nhist):
        h = gen_history(rng, nmax)
        for k in range(0, len(h) + 1):
            out.append({'op': 'kill', 'appends': h, 'k': k})
    nstore = 12 if tier == 'quick' else 300
    for _ in range(nstore):
        opts = kgen.Opts(p_part=0.9, id_pool=2, fancy_ids=False, ts_style='small', max_rows=5, image_pool=5,
                         force_parts={'records_camera', 'keypoints'},
                         forbid_parts={'records_wifi', 'records_bluetooth', 'records_gnss', 'records_accelerometer',
                                       'records_gyroscope', 'records_magnetic', 'records_lidar', 'records_depth', 'rigs', 'trajectories'})
        # how the folder is packed: bare member names (what add_array_to_tar writes), or what `tar -cf x.tar -C folder .`
        # produces (a '.' entry, directory entries, './'-prefixed names), or names with a doubled / and a './' inside
        out.append({'op': 'store', 'd': kgen.gen_dataset(rng, opts), 'pack': rng.choice(['bare', 'dot', 'dot', 'odd']),
                    'links': rng.choice([0, 0, rng.randrange(1, 10 ** 6)]), 'no_images': rng.random() < 0.25})
    return out


_cache = {}


def run_real(c):
    k = json.dumps(c, sort_keys=True)
    if k in _cache:
        return _cache[k]
    _cache.clear()
    _cache[k] = _kill(c) if c['op'] == 'kill' else _store(c)
    return _cache[k]


def _kill(c):
    from kapture.io.tar import TarHandler
    base = tempfile.mkdtemp(prefix='c12_')
    try:
        tp = os.path.join(base, 'keypoints.tar')
        spec = os.path.join(base, 'spec.json')
        with open(spec, 'w') as f:
            json.dump({'path': tp, 'appends': c['appends'], 'k': c['k']}, f)
        script = os.path.join(base, 'writer.py')
        with open(script, 'w') as f:
            f.write(WRITER)
        p = subprocess.run([sys.executable, script, spec], capture_output=True, text=True, timeout=120,
                           env=dict(os.environ, PYTHONDONTWRITEBYTECODE='1'))
        killed = p.returncode == -signal.SIGKILL
        length = os.path.getsize(tp) if os.path.exists(tp) else None
        try:
            with TarHandler(tp, 'r') as th:
                content = {}
                for name, info in th.content.items():
                    content[name] = list(th.fid.extractfile(info).read())
            err = None
        except Exception as e:
            content, err = None, type(e).__name__ + ': ' + str(e)[:100]
        return {'killed': killed, 'stderr': p.stderr[-300:], 'length': length, 'content': content, 'open_error': err}
    finally:
        shutil.rmtree(base, ignore_errors=True)


def _store(c):
    import kapture
    from kapture.io.csv import kapture_from_dir, get_all_tar_handlers
    import kapture.io.features as kf
    base = tempfile.mkdtemp(prefix='c12_')
    try:
        root = os.path.join(base, 'k')
        kgen.write_dataset(c['d'], root, 's')
        if c.get('no_images'):
            # a features-only store: the list of image records is there and EMPTY (header only); no image is known, so no feature is
            # loaded — in the directory form and in the packed form alike
            rc = os.path.join(root, 'sensors', 'records_camera.txt')
            if os.path.exists(rc):
                head = [l for l in open(rc).read().split('\n') if l.startswith('#')]
                with open(rc, 'w') as f:
                    f.write('\n'.join(head) + '\n')
        if c.get('links'):
            # a feature folder that went through a de-duplication tool (cp -al, hardlink, jdupes -L): two images of one type whose
            # files are ONE inode — or a symbolic link to the sibling; `tar` / tarfile.add store the second name as a link member
            lrng = __import__('random').Random(c['links'])
            for kind, ext in (('keypoints', '.kpt'), ('descriptors', '.desc'), ('global_features', '.gfeat'), ('matches', '.matches')):
                kdir = os.path.join(root, 'reconstruction', kind)
                for ty in (sorted(os.listdir(kdir)) if os.path.isdir(kdir) else []):
                    files = sorted(os.path.join(dp, fn) for dp, _, fns in os.walk(os.path.join(kdir, ty)) for fn in fns if fn.endswith(ext))
                    if len(files) >= 2 and lrng.random() < 0.7:
                        a_, b_ = lrng.sample(files, 2)
                        os.remove(b_)
                        if lrng.random() < 0.7:
                            os.link(a_, b_)
                        else:
                            os.symlink(os.path.relpath(a_, os.path.dirname(b_)), b_)
        th = get_all_tar_handlers(root)
        try:
            as_dir = kgen.describe(kapture_from_dir(root, tar_handlers=th))
            dig_dir = mc.feature_file_digests(root, as_dir, th)
        finally:
            th.close()
        # pack every feature folder: tar cf <kind>.tar <files>, then delete the files
        packed = []
        for kind, ext in (('keypoints', '.kpt'), ('descriptors', '.desc'), ('global_features', '.gfeat'), ('matches', '.matches')):
            kdir = os.path.join(root, 'reconstruction', kind)
            if not os.path.isdir(kdir):
                continue
            for ty in sorted(os.listdir(kdir)):
                tdir = os.path.join(kdir, ty)
                files = []
                for dp, _, fns in os.walk(tdir):
                    for fn in fns:
                        if fn.endswith(ext):
                            files.append(os.path.relpath(os.path.join(dp, fn), tdir))
                if not files:
                    continue
                style = c.get('pack', 'bare')
                with tarfile.open(os.path.join(tdir, kind + '.tar'), 'w') as tf:
                    if style == 'dot':
                        tf.add(tdir, arcname='.', recursive=False)
                        for dp, dns, _ in os.walk(tdir):
                            for dn in sorted(dns):
                                tf.add(os.path.join(dp, dn), arcname='./' + os.path.relpath(os.path.join(dp, dn), tdir), recursive=False)
                    for rel in sorted(files):
                        arc = rel if style == 'bare' else './' + rel if style == 'dot' else \
                            ('./' + rel).replace('/', '//', 1) if '/' not in rel else rel.replace('/', '/./', 1)
                        tf.add(os.path.join(tdir, rel), arcname=arc)
                for rel in files:
                    os.remove(os.path.join(tdir, rel))
                packed.append(f'{kind}/{ty}:{len(files)}')
        th = get_all_tar_handlers(root)
        try:
            as_tar = kgen.describe(kapture_from_dir(root, tar_handlers=th))
            dig_tar = mc.feature_file_digests(root, as_tar, th)
        finally:
            th.close()
        # every packed archive member by member (read with the standard tarfile module, no kapture code) for the model, and what
        # TarHandler reads back under every name it indexes
        from kapture.io.tar import TarHandler
        tars = []
        for dp, _, fns in sorted(os.walk(os.path.join(root, 'reconstruction'))):
            for fn in sorted(fns):
                if not fn.endswith('.tar'):
                    continue
                tp = os.path.join(dp, fn)
                table = {}
                members = []
                with tarfile.open(tp, 'r') as tf:
                    for ti in tf.getmembers():
                        name = os.path.normpath(ti.name)
                        if ti.isreg():
                            blob = tf.extractfile(ti).read()
                            members.append([name, 'data', [table.setdefault(blob, len(table))]])
                        elif ti.islnk():
                            members.append([name, 'hard', os.path.normpath(ti.linkname)])
                        elif ti.issym():
                            members.append([name, 'sym', os.path.normpath(os.path.join(os.path.dirname(ti.name), ti.linkname))])
                reads = []
                with TarHandler(tp, 'r') as h:
                    for key in sorted(set(os.path.normpath(k) for k, ti in h.content.items() if not ti.isdir())):
                        try:
                            got = h.get_array_from_tar(key, np.uint8, 1).tobytes()
                            reads.append([key, [table[got]] if got in table else [-1, len(got)]])
                        except Exception as e:
                            reads.append([key, None])
                tars.append({'tar': os.path.relpath(tp, root), 'members': members, 'reads': reads})
        return {'as_dir': as_dir, 'as_tar': as_tar, 'dig_dir': dig_dir, 'dig_tar': dig_tar, 'packed': packed, 'tars': tars}
    finally:
        shutil.rmtree(base, ignore_errors=True)


def run_impl(c):
    r = run_real(c)
    if c['op'] == 'kill':
        return {'length': r['length'], 'read': None if r['content'] is None else sorted([n, b] for n, b in r['content'].items()),
                'open_error': r['open_error'], 'killed': r['killed']}
    return {'same': r['as_dir'] == r['as_tar'] and r['dig_dir'] == r['dig_tar'], 'tars': r['tars']}


def to_model(c):
    if c['op'] == 'kill':
        return [{'appends': [[a[0], a[1]] for a in c['appends']], 'k': c['k']}]
    return [{'members': [m for m in t['members'] if m[1] != 'dir']} for t in run_real(c)['tars']]


def compare(c, io, mo):
    if c['op'] != 'kill':
        # what TarHandler reads back under every name of every packed archive, link members included, versus Model/C12.readL
        for t, m in zip(io['tars'], mo):
            want = {n: b for n, b in m.get('reads', [])}
            for n, b in t['reads']:
                if want.get(n, 'absent') != b:
                    return f'{t["tar"]}: {n} reads {b} through TarHandler, the model says {want.get(n, "absent")}'
        return None
    mo = mo[0]
    if not io['killed']:
        return f'writer was not killed by SIGKILL: {run_real(c)["stderr"]}'
    if c['k'] == 0:
        return None if io['length'] in (0, None) else f'k=0 but archive has {io["length"]} bytes'
    if io['open_error']:
        return f'reader cannot open the archive after {c["k"]} appends: {io["open_error"]}'
    if io['read'] != mo['read']:
        return f'visible content after kill at {c["k"]}: impl {str(io["read"])[:200]} model {str(mo["read"])[:200]}'
    if io['length'] != mo['length']:
        return f'archive length after kill at {c["k"]}: impl {io["length"]} model {mo["length"]}'
    return None


def oracle(c):
    r = run_real(c)
    if c['op'] == 'kill':
        if not r['killed']:
            return {'signature': 'writer-not-killed', 'detail': r['stderr']}
        if c['k'] == 0:
            return None
        if r['content'] is None:
            return {'signature': 'archive-unreadable-after-kill', 'detail': f'k={c["k"]}: {r["open_error"]}'}
        latest = {}
        for n, d, *_ in c['appends'][:c['k']]:
            latest[n] = d
        for n, d in latest.items():
            if r['content'].get(n) != d:
                return {'signature': 'append-lost', 'detail': f'after a kill following append {c["k"]}, {n!r} reads '
                        f'{"nothing" if n not in r["content"] else "an older or partial version"}'}
        if set(r['content']) != set(latest):
            return {'signature': 'phantom-member', 'detail': f'{sorted(set(r["content"]) - set(latest))}'}
        return None
    if r['as_dir'] != r['as_tar']:
        diff = [p for p in kgen.PART_NAMES if r['as_dir'][p] != r['as_tar'][p]]
        return {'signature': 'tar-load-differs', 'detail': f'parts {diff} differ between directory and tar form (packed {r["packed"]})'}
    if r['dig_dir'] != r['dig_tar']:
        return {'signature': 'tar-array-differs', 'detail': 'an array read from the tar differs from the file it was packed from'}
    return None


def nontrivial(c):
    if c['op'] == 'kill':
        return None if c['k'] == 0 else json.dumps([c['appends'], c['k']])
    return json.dumps(c['d'], sort_keys=True)


def distribution(cases_):
    d = {}
    for c in cases_:
        d[c['op']] = d.get(c['op'], 0) + 1
        if c['op'] == 'kill':
            d['k=%d' % c['k']] = d.get('k=%d' % c['k'], 0) + 1
            names = [a[0] for a in c['appends'][:c['k']]]
            if len(names) != len(set(names)):
                d['with-overwrite'] = d.get('with-overwrite', 0) + 1
    return d
