"""
C01 — saving a dataset and loading it back returns the same dataset.
Correspondence (text layer and typed layer): kapture_to_dir on a generated dataset versus Model/C01.lean rendering the same dataset from tokens: the SET of
files written and every file BYTE FOR BYTE; the rows Base/Csv.parseFile extracts from those bytes versus table_from_file; the
str.isspace table of the model versus CPython; int() of the timestamp tokens.
Oracle (implementation only): the reloaded dataset equals the original (same keys, strings, ints, bit-identical floats,
3-D coordinates within 1e-10, sensor name None = ''), absent parts stay absent, and saving the reloaded dataset reproduces
every text file byte for byte.
"""
import io
import json
import os
import shutil
import tempfile

import kgen
import mergecommon as mc

ID = 'C01'
TITLE = 'Saving a dataset and loading it back returns the same dataset'
GEN = ['Headers', 'FileNames', 'RecordSchemas']
RULE = ('each case = a generated dataset: every one of the 18 parts present with probability 0.1..0.95 (all subsets reachable), 1..4 '
        'sensors of every kind, identifiers with spaces / unicode / dots, floats drawn from subnormals, 17-digit values, +-0.0, '
        '1e+-300 and random bit patterns, partial poses, 3- and 6-column and empty clouds, negative and 1..19-digit timestamps, every '
        'numpy element type name; distinct non-trivial = distinct datasets with at least 6 parts present')
ASSUMPTIONS = [
    'CPython: float(repr(x)) == x bitwise for finite doubles, str(int)/int(str) (modelled by showInt/readInt), str.strip semantics '
    '(the model\'s whitespace table is compared with str.isspace for every code point on every run), universal newlines',
    'numpy.savetxt("%.10f") / loadtxt: coordinates are compared within 1e-10, file bytes exactly',
    'leaf values are rendered by str(); the model receives those tokens and is responsible for everything else (files, headers, '
    'padding, order, flattening)',
    'the typed layer (values -> tokens -> values: pose_to_list and both pose readers, int(), the casts of RecordArray to the '
    'field types DECLARED by the record classes, generated from dataclasses.fields) is proved for any float codec satisfying '
    'Lawful: float(repr(x)) == x, a repr is a non-empty blank-free comma-free token, float(\'\') raises; those three CPython '
    'facts are hypotheses of the theorems, exercised by the reload oracle (bit-identical floats); the model decodes the text '
    'the implementation wrote and must find what the implementation loaded',
]
TRUSTED = ['kgen.py dataset generator and describe()']
PARTIAL = ('text/row layer proved outright; typed layer proved modulo the three float-codec laws (CPython facts, hypotheses of the '
           'theorems); 3-D point coordinates go through %.<d>f with d regenerated (points_within_1e10, points_resave_same_units over exact rationals; the double nearest to the decimal that loadtxt returns is not modelled: the correspondence checks, number by number, that the written token IS a nearest count for both the saved and the reloaded value); sensors keep their parameters as strings')
_cache = {}


def gen_case(rng):
    opts = kgen.Opts(dtype_instances=0.3, unordered_pairs=0.3, p_part=rng.choice([0.1, 0.5, 0.8, 0.95]), id_pool=4, fancy_ids=True, max_rows=5, image_pool=5,
                     partial_poses=True, nested_rigs=rng.random() < 0.3, odd_paths=True, histories=True)
    # 'before': what the same process loaded just before this dataset (nothing; a legacy 1.0 directory; a directory holding
    # observations and points but no keypoints, which the loader refuses): the round trip must not depend on it
    return {'d': kgen.gen_dataset(rng, opts), 'before': rng.choice([None, None, None, '1.0', 'obs_only'])}


def cases(rng, tier):
    n = 300 if tier == 'quick' else 3000
    return [gen_case(rng) for _ in range(n)]


def read_tree(root):
    out = {}
    for dp, _, fns in os.walk(root):
        for fn in fns:
            if fn.endswith('.txt'):
                full = os.path.join(dp, fn)
                with open(full, 'rb') as f:
                    out[os.path.relpath(full, root)] = f.read().decode('utf-8')
    return out


def run_real(case):
    k = json.dumps(case, sort_keys=True)
    if k in _cache:
        return _cache[k]
    _cache.clear()
    from kapture.io.csv import kapture_to_dir, kapture_from_dir, table_from_file
    base = tempfile.mkdtemp(prefix='c01_')
    res = {}
    try:
        a_dir, b_dir = os.path.join(base, 'a'), os.path.join(base, 'b')
        kobj = kgen.build(case['d'])
        res['orig'] = kgen.describe(kobj)
        try:
            kapture_to_dir(a_dir, kobj)
            kgen.write_data_files(case['d'], a_dir, 's')
            res['files'] = read_tree(a_dir)
            res['rows'] = {p: [list(r) for r in table_from_file(io.StringIO(t, newline=None))] for p, t in res['files'].items()
                           if not p.endswith('points3d.txt')}
            load_before(case.get('before'), base)
            k2 = kapture_from_dir(a_dir)
            res['reloaded'] = kgen.describe(k2)
            kapture_to_dir(b_dir, k2)
            res['resaved'] = read_tree(b_dir)
            res['error'] = None
        except Exception as e:
            import traceback
            res['error'] = type(e).__name__ + ': ' + str(e)[:200] + ' @ ' + traceback.format_exc().strip().split('\n')[-3].strip()[:120]
    finally:
        shutil.rmtree(base, ignore_errors=True)
    _cache[k] = res
    return res


def load_before(kind, base):
    if not kind:
        return
    from kapture.io.csv import kapture_from_dir
    other = os.path.join(base, 'other')
    os.makedirs(os.path.join(other, 'sensors'))
    version = '1.0' if kind == '1.0' else '1.1'
    with open(os.path.join(other, 'sensors', 'sensors.txt'), 'w') as f:
        f.write(f'# kapture format: {version}\n# sensor_id, name, sensor_type, [sensor_params]+\ncam0, , camera, SIMPLE_PINHOLE, 640, 480, 500, 320, 240\n')
    if kind == 'obs_only':
        os.makedirs(os.path.join(other, 'reconstruction'))
        with open(os.path.join(other, 'sensors', 'records_camera.txt'), 'w') as f:
            f.write('# kapture format: 1.1\n# timestamp, device_id, image_path\n0, cam0, a.jpg\n')
        with open(os.path.join(other, 'reconstruction', 'points3d.txt'), 'w') as f:
            f.write('# kapture format: 1.1\n# X, Y, Z\n0.0,0.0,0.0\n')
        with open(os.path.join(other, 'reconstruction', 'observations.txt'), 'w') as f:
            f.write('# kapture format: 1.1\n# point3d_id, keypoints_type, [image_path, feature_id]*\n0, sift, a.jpg, 0\n')
    try:
        kapture_from_dir(other)
    except Exception:
        pass          # refused (AssertionError on the unchanged tree): fine, it is the NEXT load that is judged


# ---------------------------------------------------------------------------------------------------- tokens for the model

def ftok(h):
    return str(kgen.F(h))


def pose_tokens(p):
    r = [ftok(h) for h in p['r']] if p['r'] is not None else [''] * 4
    t = [ftok(h) for h in p['t']] if p['t'] is not None else [''] * 3
    return r + t


def tdata_of(d):
    t = {'sensors': None, 'rigs': None, 'trajectories': None, 'recordsFile': {}, 'recordsGeneric': {}, 'wifi': None,
         'bluetooth': None, 'features': {}, 'observations': None, 'points': None}
    if d['sensors'] is not None:
        t['sensors'] = [[sid, s['name'] or '', s['type']] + list(s['params']) for sid, s in d['sensors'].items()]
    if d['rigs'] is not None:
        t['rigs'] = [[rid, dev] + pose_tokens(p) for rid, m in d['rigs'].items() for dev, p in m.items()]
    if d['trajectories'] is not None:
        t['trajectories'] = [[ts, dev, pose_tokens(p)] for ts, dev, p in d['trajectories']]
    for part in kgen.RECORD_FILE_KINDS:
        if d[part] is not None:
            t['recordsFile'][part] = [[ts, dev, p] for ts, dev, p in d[part]]
    if d['records_gnss'] is not None:
        t['recordsGeneric']['records_gnss'] = [[ts, dev, [ftok(x), ftok(y), ftok(z), str(utc), ftok(dop)]]
                                               for ts, dev, (x, y, z, utc, dop) in d['records_gnss']]
    for part in kgen.RECORD_XYZ_KINDS:
        if d[part] is not None:
            t['recordsGeneric'][part] = [[ts, dev, [ftok(v) for v in xyz]] for ts, dev, xyz in d[part]]
    if d['records_wifi'] is not None:
        t['wifi'] = [[ts, dev, [[b, [str(f), ftok(r), ssid, str(t0), str(t1)]] for b, (f, r, ssid, t0, t1) in sig.items()]]
                     for ts, dev, sig in d['records_wifi']]
    if d['records_bluetooth'] is not None:
        t['bluetooth'] = [[ts, dev, [[b, [ftok(r), name]] for b, (r, name) in sig.items()]] for ts, dev, sig in d['records_bluetooth']]
    for kind in ('keypoints', 'descriptors', 'global_features'):
        if d[kind] is not None:
            t['features'][kind] = {}
            for ty, v in d[kind].items():
                row = [ty, v['dtype'], str(v['dsize'])]
                if kind == 'descriptors':
                    row += [v['keypoints_type'], v['metric_type']]
                if kind == 'global_features':
                    row += [v['metric_type']]
                t['features'][kind][ty] = row
    if d['observations'] is not None:
        groups = {}
        for idx, kt, img, fid in d['observations']:
            groups.setdefault((idx, kt), []).append([img, str(fid)])
        t['observations'] = [[idx, kt, pairs] for (idx, kt), pairs in groups.items()]
    if d['points3d'] is not None:
        t['points'] = [d['points3d']['cols'] == 6, [['%.10f' % kgen.F(h) for h in row] for row in d['points3d']['rows']]]
    return t


def insertion_order_desc(case):
    """ the description as built (dict orders preserved), floats canonicalised through the real objects """
    k = kgen.build(case['d'])
    d = kgen.describe(k)
    # describe() sorts trajectories/records; the writer sorts them again, so order there is irrelevant; observations: use
    # the generated (insertion) order because pairs are written in list order
    d['observations'] = case['d']['observations']
    return d


TYPED_FILES = {'sensors/trajectories.txt': 'traj', 'sensors/rigs.txt': 'rig', 'sensors/records_gnss.txt': 'generic',
               'sensors/records_accelerometer.txt': 'generic', 'sensors/records_gyroscope.txt': 'generic',
               'sensors/records_magnetic.txt': 'generic', 'sensors/records_wifi.txt': 'wifi', 'sensors/records_bluetooth.txt': 'bluetooth',
               'sensors/records_camera.txt': 'filerec', 'sensors/records_depth.txt': 'filerec', 'sensors/records_lidar.txt': 'filerec',
               'reconstruction/observations.txt': 'obs'}


def typed_view(d):
    """ the RELOADED dataset (a describe() of the objects kapture_from_dir built) as typed rows per file: integers, the repr token
    of every float, None for a missing rotation / translation.  What the model must decode from the written text. """
    def pose(p):
        return [None if p['r'] is None else [ftok(h) for h in p['r']], None if p['t'] is None else [ftok(h) for h in p['t']]]
    v = {}
    if d['trajectories'] is not None:
        v['sensors/trajectories.txt'] = sorted([['ok', ts, dev] + pose(p) for ts, dev, p in d['trajectories']], key=lambda e: (e[1], e[2]))
    if d['rigs'] is not None:
        v['sensors/rigs.txt'] = sorted(['ok', rid, dev] + pose(p) for rid, m in d['rigs'].items() for dev, p in m.items())
    for part in kgen.RECORD_FILE_KINDS:
        if d[part] is not None:
            v[f'sensors/{part}.txt'] = sorted(['ok', ts, dev, p] for ts, dev, p in d[part])
    if d['records_gnss'] is not None:
        v['sensors/records_gnss.txt'] = sorted(['ok', ts, dev, [ftok(x), ftok(y), ftok(z), str(utc), ftok(dop)]]
                                               for ts, dev, (x, y, z, utc, dop) in d['records_gnss'])
    for part in kgen.RECORD_XYZ_KINDS:
        if d[part] is not None:
            v[f'sensors/{part}.txt'] = sorted(['ok', ts, dev, [ftok(x) for x in xyz]] for ts, dev, xyz in d[part])
    if d['records_wifi'] is not None:
        v['sensors/records_wifi.txt'] = sorted(['ok', ts, dev, b, [str(f), ftok(r), ssid, str(t0), str(t1)]]
                                               for ts, dev, sig in d['records_wifi'] for b, (f, r, ssid, t0, t1) in sig.items())
    if d['records_bluetooth'] is not None:
        v['sensors/records_bluetooth.txt'] = sorted(['ok', ts, dev, b, [ftok(r), name]]
                                                    for ts, dev, sig in d['records_bluetooth'] for b, (r, name) in sig.items())
    if d['observations'] is not None:
        groups = {}
        for idx, kt, img, fid in d['observations']:
            groups.setdefault((idx, kt), []).append([img, fid])
        v['reconstruction/observations.txt'] = sorted(['ok', idx, kt, sorted(pairs)] for (idx, kt), pairs in groups.items())
    return v


def run_impl(case):
    r = run_real(case)
    if r['error']:
        return {'error': r['error']}
    return {'files': r['files'], 'rows': r['rows'], 'typed': typed_view(r['reloaded']), 'points': point_items(r)}


def to_model(case):
    r = run_real(case)
    reqs = [{'op': 'save', 'd': tdata_of(insertion_order_desc(case))}, {'op': 'spaces'}]
    if not r.get('error'):
        for p in sorted(r['rows']):
            reqs.append({'op': 'parse', 'text': r['files'][p]})
        # the typed layer: the model decodes the text the implementation WROTE; compared with what the implementation LOADED
        for p in sorted(r['files']):
            if p in TYPED_FILES:
                reqs.append({'op': 'decode', 'kind': TYPED_FILES[p], 'file': os.path.basename(p), 'text': r['files'][p], 'path': p})
        reqs.append({'op': 'points', 'items': point_items(r)})
    return reqs


POINTS_FILE = os.path.join('reconstruction', 'points3d.txt')


def point_items(r):
    """ [exact value as 'num/den', the token the implementation wrote for it] for every number of points3d.txt, first for the
    values SAVED, then for the values LOADED BACK (the model says whether the token is a nearest count of 10^-d units: the
    hypothesis of points_within_1e10 for the first, of points_resave_same_units for the second) """
    text = r['files'].get(POINTS_FILE)
    if text is None or r['orig']['points3d'] is None:
        return []
    tokens = [[t.strip() for t in ln.split(',')] for ln in text.splitlines() if ln.strip() and not ln.startswith('#')]
    items = []
    for which in ('orig', 'reloaded'):
        pts = r[which]['points3d']
        rows = pts['rows'] if pts is not None else []
        if len(rows) != len(tokens):
            items.append(['0/1', f'ROWS:{len(rows)}!={len(tokens)}'])
            continue
        for row, toks in zip(rows, tokens):
            if len(row) != len(toks):
                items.append(['0/1', f'COLS:{len(row)}!={len(toks)}'])
                continue
            for h, t in zip(row, toks):
                n, den = kgen.F(h).as_integer_ratio()
                items.append([f'{n}/{den}', t])
    return items


def compare(case, io_, mo):
    if 'error' in io_:
        return f'implementation raised {io_["error"]}'
    files = mo[0].get('files')
    if files is None:
        return f'model error {mo[0]}'
    if sorted(files) != sorted(io_['files']):
        return f'files written: impl {sorted(io_["files"])} model {sorted(files)}'
    for p in sorted(files):
        if files[p] != io_['files'][p]:
            a, b = io_['files'][p], files[p]
            i = next((j for j in range(min(len(a), len(b))) if a[j] != b[j]), min(len(a), len(b)))
            return f'{p}: bytes differ at {i}: impl {a[max(0, i - 30):i + 30]!r} model {b[max(0, i - 30):i + 30]!r}'
    import sys
    py = [c for c in range(sys.maxunicode + 1) if chr(c).isspace()] if not hasattr(compare, '_py') else compare._py
    compare._py = py
    if mo[1].get('codes') != py:
        return f'whitespace table: python {py} model {mo[1].get("codes")}'
    for p, m in zip(sorted(io_['rows']), mo[2:]):
        if m.get('rows') != io_['rows'][p]:
            return f'{p}: parsed rows differ: impl {str(io_["rows"][p])[:200]} model {str(m.get("rows"))[:200]}'
    typed_paths = [p for p in sorted(io_['files']) if p in TYPED_FILES]
    for p, m in zip(typed_paths, mo[2 + len(io_['rows']):]):
        dec = m.get('decoded')
        if dec is None:
            return f'{p}: model decode error {m}'
        if p.endswith('observations.txt'):
            dec = [[e[0], e[1], e[2], sorted(e[3])] if e[0] == 'ok' else e for e in dec]
        key = (lambda e: (e[1], e[2])) if p.endswith('trajectories.txt') else None
        try:
            dec = sorted(dec, key=key) if key else sorted(dec)
        except TypeError:
            pass
        want = io_['typed'].get(p)
        if want is None:
            if dec:
                return f'{p}: the model decodes {len(dec)} rows of a part that did not load'
            continue
        if dec != want:
            a = [e for e in want if e not in dec][:2]
            b = [e for e in dec if e not in want][:2]
            return f'{p}: typed content: loaded-only {a} decoded-only {b}'
    pts = mo[2 + len(io_['rows']) + len(typed_paths)]
    if pts.get('nearest') is None:
        return f'points: model error {pts}'
    bad = [(it, k) for k, (it, ok) in enumerate(zip(io_['points'], pts['nearest'])) if not ok]
    if len(pts['nearest']) != len(io_['points']) or bad:
        it, k = bad[0] if bad else (None, -1)
        half = len(io_['points']) // 2
        return (f'points3d.txt: the token written is not a nearest count of 1e-{pts.get("decimals")} units of the value '
                f'{"saved" if k < half else "loaded back"}: {it}')
    return None


# ---------------------------------------------------------------------------------------------------- oracle

def close_points(a, b):
    if a is None or b is None:
        return a is None and b is None
    if a['cols'] != b['cols'] or len(a['rows']) != len(b['rows']):
        return False
    return all(abs(kgen.F(x) - kgen.F(y)) <= 1e-10 for ra, rb in zip(a['rows'], b['rows']) for x, y in zip(ra, rb))


def oracle(case):
    r = run_real(case)
    if r['error']:
        return {'signature': 'raises:' + r['error'].split(':')[0], 'detail': r['error']}
    a, b = r['orig'], r['reloaded']
    for p in kgen.PART_NAMES:
        x, y = a[p], b[p]
        if p == 'points3d':
            if not close_points(x, y):
                return {'signature': 'reload-differs:points3d', 'detail': f'{str(x)[:150]} -> {str(y)[:150]}'}
            continue
        if p == 'records_gnss' and x is not None and not any(s['type'] == 'gnss' for s in (a['sensors'] or {}).values()):
            continue
        if p in ('trajectories', 'rigs') and x is not None:
            pass
        if p == 'observations' and x is not None:
            x = sorted(x)
            y = None if y is None else sorted(y)
            if not x and y is None:
                continue
        if p == 'rigs' and x is not None and y is not None:
            # a rig keeps its key order; compare as dicts
            pass
        if x != y:
            # an empty table is written as a header-only file and reloads as an empty table: equal; None vs empty is a difference
            return {'signature': 'reload-differs:' + p, 'detail': f'{str(x)[:200]} -> {str(y)[:200]}'}
    for p, t in r['files'].items():
        if r['resaved'].get(p) != t:
            return {'signature': 'resave-differs', 'detail': f'{p} is not byte-identical after load + save'}
    if sorted(r['resaved']) != sorted(r['files']):
        return {'signature': 'resave-differs', 'detail': f'files {sorted(set(r["files"]) ^ set(r["resaved"]))}'}
    return None


def nontrivial(case):
    if sum(1 for p in kgen.PART_NAMES if case['d'][p] is not None) < 6:
        return None
    return json.dumps(case['d'], sort_keys=True)


def distribution(cases_):
    d = {}
    for c in cases_:
        n = sum(1 for p in kgen.PART_NAMES if c['d'][p] is not None)
        d['parts=%d' % n] = d.get('parts=%d' % n, 0) + 1
        for p in kgen.PART_NAMES:
            if c['d'][p] is not None:
                d['has:' + p] = d.get('has:' + p, 0) + 1
    return d


DEPENDENTS = {'records_camera': ['keypoints', 'descriptors', 'global_features', 'matches', 'observations'],
              'keypoints': ['descriptors', 'matches', 'observations'], 'points3d': ['observations']}


def shrink(case, still_fails):
    """ drops parts while the failure persists, keeping the dataset well formed (a part goes with its dependents) """
    c = json.loads(json.dumps(case))
    changed = True
    while changed:
        changed = False
        for p in kgen.PART_NAMES:
            if p != 'sensors' and c['d'][p] is not None:
                cand = json.loads(json.dumps(c))
                for q in [p] + DEPENDENTS.get(p, []):
                    cand['d'][q] = None
                if still_fails(cand):
                    c, changed = cand, True
                    break
    return c
