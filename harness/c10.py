"""
C10 — merging with renamed identifiers is a disjoint union, consistently renamed.
Correspondence: kapture.algo.merge_remap.merge_remap (and the merge tool without --keep-sensor-ids) on 1..4 datasets that use
the SAME identifiers on purpose, any part missing at any position, versus Model/C10.lean: the id mappings and every merged table.
Oracle (implementation only, independent of the naming scheme): every sensor carries a name that encodes (input, id); after
replacing each device id by the name of the sensor definition it designates (rigs: by the set of their members), the merged
tables must equal the disjoint union of the inputs' tables, counts must add up, fresh ids must be pairwise distinct.
"""
import copy
import json
import os
import shutil
import sys
import tempfile
from collections import Counter

import kgen
import mergecommon as mc

ID = 'C10'
TITLE = 'Merging with renamed identifiers is a disjoint union, consistently renamed'
GEN = ['MergeDispatch']
RULE = ('each case = 1..4 generated datasets drawing sensor/rig ids from the same 3-id pool (identical ids across inputs), 30% of the inputs using identifiers of the form sensor<N> / rig<N> themselves (an earlier merge output), each '
        'part independently missing in each input (so that a later input has a table an earlier one lacks), rigs of sensors, a '
        'random skip list, through merge_remap or the merge tool; in 60% of the cases a later input STARTS a record table with the '
        '(timestamp, device) an earlier input ENDED it with (sequences recorded back to back); distinct non-trivial = distinct cases in which two inputs share '
        'an identifier and some input lacks a part that a later input has')
ASSUMPTIONS = [
    'fresh identifiers are rendered sensor<n> / rig<n> with decimal n (injective rendering is trusted)',
    'rig members are sensors (nested rigs are outside the quantifier: merge_remap.merge_rigs looks members up in the sensor mapping)',
    'trajectory/record devices are declared sensors or rigs of their own input (closure, C04)',
]
TRUSTED = ['kgen.py dataset generator and describe()']
_cache = {}


def kap():
    import kapture
    return kapture


def rename_ids(x, mapping):
    """ the description with every sensor / rig identifier renamed (dict keys and string values alike) """
    if isinstance(x, dict):
        return {mapping.get(k, k) if isinstance(k, str) else k: rename_ids(v, mapping) for k, v in x.items()}
    if isinstance(x, list):
        return [rename_ids(v, mapping) for v in x]
    if isinstance(x, str):
        return mapping.get(x, x)
    return x


def gen_case(rng, tier):
    n = rng.choice([1, 2, 2, 3, 3, 4])
    dsets = []
    for i in range(n):
        opts = kgen.Opts(p_part=rng.choice([0.3, 0.6, 0.9]), id_pool=3, fancy_ids=False, ts_style='small', max_rows=4,
                         image_pool=4, partial_poses=False,
                         forbid_parts={'keypoints', 'descriptors', 'global_features', 'matches', 'points3d', 'observations'})
        d = kgen.gen_dataset(rng, opts)
        for sid, s in d['sensors'].items():
            s['name'] = f'in{i}:{sid}'
        if rng.random() < 0.3:
            # an input that is itself the output of an earlier merge: its identifiers ARE of the form sensor<N> / rig<N>, in any
            # order, and collide with the fresh identifiers handed out to the inputs before it
            sids = list(d['sensors'])
            rids = [r for r in (d['rigs'] or {}) if r not in d['sensors']]
            ks = rng.sample(range(0, len(sids) + 3), len(sids))
            kr = rng.sample(range(0, len(rids) + 2), len(rids))
            mapping = {sid: f'sensor{k}' for sid, k in zip(sids, ks)}
            mapping.update({rid: f'rig{k}' for rid, k in zip(rids, kr)})
            d = rename_ids(d, mapping)
            for sid, s in d['sensors'].items():
                s['name'] = f'in{i}:{sid}'
        dsets.append(d)
    # sequences recorded back to back with the same devices: a later input STARTS (its first record of a kind) with the (timestamp,
    # device id) an earlier input ENDED with — before renaming they are the same key, after it two different sensors
    kinds = {'records_wifi': 'wifi', 'records_bluetooth': 'bluetooth', 'records_gnss': 'gnss', 'records_lidar': 'lidar',
             'records_accelerometer': 'accelerometer', 'records_gyroscope': 'gyroscope', 'records_magnetic': 'magnetic'}
    cands = [(part, i) for part in kinds for i in range(n - 1) if dsets[i].get(part)]
    if cands and rng.random() < 0.6:
        part, i = rng.choice(cands)
        j = rng.randrange(i + 1, n)
        src, dst = dsets[i], dsets[j]
        src[part].sort(key=lambda r: (r[0], r[1]))          # "ended with": last in every order an implementation may iterate in
        ts, dev, payload = src[part][-1]
        ok = dev not in (dst['rigs'] or {}) and (dev not in dst['sensors'] or dst['sensors'][dev]['type'] == kinds[part])
        if ok:
            if dev not in dst['sensors']:
                dst['sensors'][dev] = dict(src['sensors'][dev], name=f'in{j}:{dev}')
            seen = {(ts, dev)}
            shifted = [[ts, dev, copy.deepcopy((dst.get(part) or [[0, 0, payload]])[0][2])]]
            for r in sorted(dst.get(part) or [], key=lambda r: (r[0], r[1])):
                r = [r[0] + ts + 1, r[1], r[2]]                 # the rest of the later sequence comes after
                if (r[0], r[1]) not in seen:
                    seen.add((r[0], r[1]))
                    shifted.append(r)
            dst[part] = shifted
    skip = [t for a, t in mc.TYPE_OF_ATTR.items() if a in mc.SIMPLE and rng.random() < 0.08]
    return {'datasets': dsets, 'skip': skip, 'via_tool': rng.random() < 0.25}


def cases(rng, tier):
    n = 150 if tier == 'quick' else 3000
    return [gen_case(rng, tier) for _ in range(n)]


def key_of(case):
    return json.dumps(case, sort_keys=True)


def run_real(case):
    k = key_of(case)
    if k not in _cache:
        _cache.clear()
        _cache[k] = _run_real(case)
    return _cache[k]


def _run_real(case):
    kapture = kap()
    from kapture.algo.merge_remap import merge_remap
    from kapture.io.csv import get_all_tar_handlers, kapture_from_dir
    from kapture.io.records import TransferAction
    base = tempfile.mkdtemp(prefix='c10_')
    try:
        skip_types = [getattr(kapture, t) for t in case['skip']]
        paths, objs = [], []
        for i, d in enumerate(case['datasets']):
            p = os.path.join(base, f'in{i}')
            kobj, _ = kgen.write_dataset(d, p, f'salt{i}')
            paths.append(p)
            objs.append(kobj)
        merged_path = os.path.join(base, 'merged')
        os.makedirs(merged_path)
        if case['via_tool']:
            tools = os.path.join(os.environ.get('KAPTURE_REPO', '/repo'), 'tools')
            if tools not in sys.path:
                sys.path.insert(0, tools)
            import kapture_merge
            names = {v: k for k, v in mc.TYPE_OF_ATTR.items()}
            inputs = []
            for p in paths:
                inputs.append(kgen.describe(kapture_from_dir(p, skip_list=skip_types)))
            try:
                kapture_merge.merge_kaptures(paths, merged_path, keep_sensor_ids=False, images_import_strategy=TransferAction.skip,
                                             skip=[names[t] for t in case['skip']], force=True)
                merged, err = kapture_from_dir(merged_path), None
            except Exception as e:
                merged, err = None, type(e).__name__ + ': ' + str(e)[:200]
            before = after = inputs
        else:
            inputs = [kgen.describe(o) for o in objs]
            handlers = [get_all_tar_handlers(p) for p in paths]
            try:
                try:
                    merged, err = merge_remap(objs, skip_types, paths, handlers, merged_path, TransferAction.skip), None
                except Exception as e:
                    merged, err = None, type(e).__name__ + ': ' + str(e)[:200]
            finally:
                for th in handlers:
                    th.close()
            md_pre = None if merged is None else kgen.describe(merged)
            if merged is not None:
                mc.scribble(merged)              # the result is the caller's: wiping it must not reach the inputs
            before, after = inputs, [kgen.describe(o) for o in objs]
            return {'error': err, 'inputs': inputs, 'before': before, 'after': after, 'merged': md_pre}
        return {'error': err, 'inputs': inputs, 'before': before, 'after': after,
                'merged': None if merged is None else kgen.describe(merged)}
    finally:
        shutil.rmtree(base, ignore_errors=True)


def run_impl(case):
    r = run_real(case)
    if r['error']:
        return {'error': r['error'].split(':')[0]}
    tabs = mc.tables_of(r['merged'])
    return {'simple': {a: mc.sorted_table(tabs[a]) for a in mc.SIMPLE}}


def to_model(case):
    r = run_real(case)
    ins = r['inputs']
    return [{'skip': case['skip'],
             'ids': [{'sensors': None if d['sensors'] is None else list(d['sensors']),
                      'rigs': None if d['rigs'] is None else list(d['rigs'])} for d in ins],
             'inputs': [mc.tables_of(d) for d in ins]}]


def compare(case, io, mo):
    mo = mo[0]
    if 'error' in io or 'error' in mo:
        return None if io.get('error') == mo.get('error') else f'errors differ: impl={io.get("error")} model={mo.get("error")}'
    for a in mc.SIMPLE:
        if io['simple'][a] != mc.sorted_table(mo['simple'].get(a)):
            return f'{a}: impl {str(io["simple"][a])[:300]} model {str(mc.sorted_table(mo["simple"].get(a)))[:300]}'
    return None


# ---------------------------------------------------------------------------------------------------- oracle

def origins(d, tag=None):
    """ device id -> origin string (sensor: its name, which encodes input and original id; rig: its member set) """
    o = {}
    for sid, s in (d['sensors'] or {}).items():
        o[sid] = s['name'] if tag is None else f'{tag}:{sid}'
    for rid, members in (d['rigs'] or {}).items():
        o[rid] = 'rig:' + mc.J(sorted((o.get(m, '?' + m), mc.J(p)) for m, p in members.items()))
    return o


def origin_view(d, o):
    t = mc.tables_of(d)
    out = {}
    for a in mc.SIMPLE:
        if t[a] is None:
            out[a] = None
            continue
        rows = []
        for k, v in t[a]:
            if a == 'sensors':
                typ, params, _name = json.loads(v)
                rows.append((o.get(k[0], '?' + k[0]), mc.J([typ, params])))
            elif a == 'rigs':
                rows.append((o.get(k[0], '?' + k[0]), o.get(k[1], '?' + k[1]), v))
            else:
                rows.append((k[0], o.get(k[1], '?' + k[1])) + tuple(k[2:]) + (v,))
        out[a] = Counter(rows)
    return out


def oracle(case):
    r = run_real(case)
    if r['error']:
        return {'signature': 'raises:' + r['error'].split(':')[0], 'detail': r['error']}
    if r['before'] != r['after']:
        return {'signature': 'inputs-modified', 'detail': 'input datasets changed'}
    md = r['merged']
    mv = origin_view(md, origins(md))
    nsens = sum(len(d['sensors'] or {}) for d in r['inputs'])
    nrigs = sum(len(d['rigs'] or {}) for d in r['inputs'])
    if len(md['sensors'] or {}) != nsens or len(md['rigs'] or {}) != nrigs:
        return {'signature': 'ids-not-fresh', 'detail': f'{len(md["sensors"] or {})} merged sensors for {nsens} input sensors, '
                f'{len(md["rigs"] or {})} merged rigs for {nrigs}'}
    if set(md['sensors'] or {}) & set(md['rigs'] or {}):
        return {'signature': 'ids-not-fresh', 'detail': 'a rig and a sensor share an identifier'}
    expect = {a: Counter() for a in mc.SIMPLE}
    anything = {a: False for a in mc.SIMPLE}
    for i, d in enumerate(r['inputs']):
        v = origin_view(d, origins(d, f'in{i}'))
        for a in mc.SIMPLE:
            if v[a] is not None:
                expect[a] += v[a]
                anything[a] = anything[a] or bool(v[a])
    for a in mc.SIMPLE:
        skipped = mc.TYPE_OF_ATTR.get(a) in case['skip']
        if skipped:
            if mv[a] is not None:
                return {'signature': 'skip-not-absent', 'detail': f'{a} skipped but present'}
            continue
        got = mv[a] or Counter()
        if got != expect[a]:
            lost = list((expect[a] - got).elements())[:3]
            extra = list((got - expect[a]).elements())[:3]
            return {'signature': 'disjoint-union:' + a, 'detail': f'{a}: lost {lost} extra/misattributed {extra}'}
        if not anything[a] and mv[a] is not None:
            return {'signature': 'absent-became-present', 'detail': a}
    return None


def nontrivial(case):
    ids = [set(d['sensors'] or {}) for d in case['datasets']]
    shared = any(ids[i] & ids[j] for i in range(len(ids)) for j in range(i + 1, len(ids)))
    hole = False
    for a in mc.SIMPLE[1:]:
        pres = [d[a] is not None for d in case['datasets']]
        if any(not pres[i] and any(pres[i + 1:]) for i in range(len(pres))):
            hole = True
    return key_of(case) if (shared and hole) else None


def distribution(cases_):
    d = {}
    for c in cases_:
        d['n=%d' % len(c['datasets'])] = d.get('n=%d' % len(c['datasets']), 0) + 1
        d['via_tool' if c['via_tool'] else 'direct'] = d.get('via_tool' if c['via_tool'] else 'direct', 0) + 1
        for ds in c['datasets']:
            for p in mc.SIMPLE:
                if ds[p] is None:
                    d['missing:' + p] = d.get('missing:' + p, 0) + 1
    return d


def retag(c):
    for i, d in enumerate(c['datasets']):
        for sid, sdef in (d['sensors'] or {}).items():
            sdef['name'] = f'in{i}:{sid}'
    return c


def shrink(case, still_fails):
    c = json.loads(json.dumps(case))
    changed = True
    while changed:
        changed = False
        for i in range(len(c['datasets']) - 1, -1, -1):
            if len(c['datasets']) > 1:
                cand = retag(json.loads(json.dumps(dict(c, datasets=c['datasets'][:i] + c['datasets'][i + 1:]))))
                if still_fails(cand):
                    c, changed = cand, True
                    break
        if changed:
            continue
        for i, d in enumerate(c['datasets']):
            for p in kgen.PART_NAMES:
                if p != 'sensors' and d[p] is not None:
                    cand = json.loads(json.dumps(c))
                    cand['datasets'][i][p] = None
                    if still_fails(cand):
                        c, changed = cand, True
                        break
            if changed:
                break
    return c
