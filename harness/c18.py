"""
C18 — unpacking a dataset archive never writes outside the install directory.
Correspondence: kapture.converter.downloader.archives.untar_file on generated archives (regular files, directories, symlinks,
hardlinks, a fifo; names and link targets drawn from relative, '..'-laden, absolute and back-into-dest paths; link first then a
file through the link; gz or plain) extracted into an install directory inside a sandbox parent, versus Model/C18.lean: the
resulting tree below the install directory (files with content, directories, links with targets) and whether extraction stopped
with an error of the same family.
Oracle (implementation only): snapshot of everything in the sandbox parent OUTSIDE the install directory before and after: must
be identical (decoy files included); every member of a benign archive is extracted with its content and is owner readable and
writable.
"""
import io
import json
import os
import random
import shutil
import stat
import signal
import tarfile
import tempfile

ID = 'C18'
TITLE = 'Unpacking a dataset archive never writes outside the install directory'
GEN = ['IoShapes']
RULE = ('each case = an archive of 1..7 members; kinds file/dir/symlink/hardlink/fifo; names from {plain, nested, ./x, a/../b, '
        '../x, ../../x, /abs, ../<install dir name>/x, ../<missing>/../<install dir name>/x (the member lands inside, its parent '
        'directories would not), through a previously created link}; link targets from {sibling, sub/dir, '
        '.., ../.., /abs, chain via another link}; a third of the hostile archives aim at the copy fallbacks of links (hard links naming '
        'earlier members under several spellings, re-used names, links onto directories, names ending in / or /.); 40% benign archives; gz or not. distinct non-trivial = distinct archives with at '
        'least one hostile name or link')
ASSUMPTIONS = [
    'tarfile\'s data filter (CPython 3.12), os.path.realpath, os.makedirs and the kernel\'s path walk (open / mkdir / symlink / '
    'link through symbolic links) are MODELLED (Model/C18.lean), not verified: the theorems say that in the model no entry is '
    'ever created or replaced outside the install directory, for any archive and any tree with links; the correspondence ties '
    'the model to the real extraction (same tree, same error family) and the oracle snapshots the real world outside',
    'the world outside the install directory: its ancestors are plain directories, nothing else exists there as far as the '
    'model is concerned (an entry created there IS the verdict `escaped`)',
    'the copy fallbacks of TarFile.makelink are modelled (`chain`): a hard link that os.link cannot make (target absent, a '
    'directory, something in its place) and a symbolic link that cannot be made (a directory in its place) extract the member '
    'their target names — searched before the link, resp. in the whole archive, by normalised name — at the link\'s place, '
    'recursively; names made by os.link share one inode, the model keeps copies (file contents are not compared for archives '
    'with hard links); chains longer than the archive are RecursionError in the model, longer than ~300 in CPython',
    'cycles of symbolic links: the model\'s realpath gives up (ELOOP, extraction stops) where os.path.realpath returns the '
    'unresolved path and the extraction continues until the kernel refuses the cycle: such archives are outside the model '
    'beyond that member (oracle only)',
    'everything above the install directory is a plain directory without symbolic links (true of the sandbox)',
    'permissions: only owner read/write of extracted regular files is checked (set_attrs=False leaves the rest to the umask)',
]
TRUSTED = ['tarfile', 'os.path.realpath']
PARTIAL = ('containment is proved for ALL archives and trees, links included (untar_never_escapes); that benign members are '
           'extracted with their content is proved for archives of regular files with plain names of any depth, none below another '
           '(benign_archive_extracted, benign_member_extracted); directory members, repeated names and permissions are checked '
           'by the oracle only; the copy fallbacks of links are inside the model (untar_never_unmodelled); archives that plant a CYCLE '
           'of symbolic links and then name a member through it are followed by the model only up to that member')
_cache = {}


def gen_members(rng, benign):
    n = rng.randint(1, 7)
    ms = []
    links = []
    dirs = ['d0', 'd0/sub', 'data']
    for i in range(n):
        if benign:
            kind = rng.choice(['file', 'file', 'file', 'dir', 'sym'])
            name = rng.choice(['f%d.txt' % i, 'd0/f%d.bin' % i, 'd0/sub/g%d' % i, 'data/img %d.jpg' % i, './h%d' % i])
            if kind == 'dir':
                name = rng.choice(dirs + ['newdir%d' % i])
            link = rng.choice(['f0.txt', 'd0', '../f1.txt', 'sub/x']) if kind == 'sym' else ''
            if kind == 'sym':
                name = rng.choice(['ln%d' % i, 'd0/ln%d' % i])
                link = 'f0.txt' if '/' not in name else rng.choice(['../f0.txt', 'sub', 'f1.bin'])
        else:
            kind = rng.choice(['file', 'file', 'file', 'dir', 'sym', 'sym', 'hard', 'special'])
            # names with a '..' component are refused outright by untar_file: kept to a third of the members so that the rest
            # of an archive (links planted earlier, members through them) is reached
            dotdot = ['../escaped%d' % i, '../../esc%d' % i, 'a/../../e%d' % i, 'd0/../../e%d' % i, '../{DEST}/back%d' % i,
                      'x/./y/../z%d' % i, '..'] + [l + '/../up%d' % i for l in links] + \
                     ['../decoy.txt', '../outside_dir/keep.txt', '../../grand.txt',
                      # names that leave the install directory through a component that does not exist and come
                      # back: the member itself lands inside, the directories made on the way do not
                      '../new%d/../{DEST}/x%d' % (i, i), '../n%d/m/../../{DEST}/y%d' % (i, i),
                      'd0/../../side%d/../{DEST}/d0/z%d' % (i, i), '../outside_dir/fresh%d/../../{DEST}/w%d' % (i, i)]
            plain = ['f%d' % i, 'd0/f%d' % i, '/tmp/c18_abs_%d' % i, './ok%d' % i, 'd0//f%d' % i, 'x/./y/z%d' % i, 'deep/er/dir/g%d' % i,
                     '{PARENT}/decoy.txt'] + [l + '/via%d' % i for l in links] + [l + '/decoy.txt' for l in links] + \
                    [l + '/sub%d/w' % i for l in links]
            name = rng.choice(dotdot) if rng.random() < 0.33 else rng.choice(plain)
            link = ''
            if kind in ('sym', 'hard'):
                # hard-link targets are resolved by tarfile from the archive root, symbolic ones from the link's directory:
                # '../decoy.txt', '../outside_dir/keep.txt', '../../grand.txt' name files that exist outside the sandbox's
                # install directory
                link = rng.choice(['f0', 'd0', '..', '../..', '../../outside_dir', '/etc', '/tmp', 'd0/..', '.', '../{DEST}', 'x/y/z',
                                   '../decoy.txt', '../outside_dir/keep.txt', '../../grand.txt', '../decoy.txt'] +
                                  [l for l in links] + [l + '/..' for l in links] + [l + '/../..' for l in links])
                if kind == 'sym':
                    name = rng.choice(['L%d' % i, 'd0/L%d' % i, 'x/L%d' % i])
                    links.append(name)
        if not benign and kind == 'file' and ms and rng.random() < 0.3:
            name = rng.choice(ms)['name']     # a later member re-using an earlier name writes THROUGH whatever is there
        ms.append({'kind': kind, 'name': name, 'linkname': link, 'content': i + 1})
    return ms


def gen_linky(rng):
    """ archives that reach the COPY FALLBACKS of TarFile.makelink: hard links naming earlier members (under several spellings
    of the same normalised name), members that are not on disk any more, directories, other links, themselves; names re-used so
    that os.link finds something in its place; symbolic links onto directories; names ending in '/' or '/.' """
    ms = []
    names = ['f0', 'f1', 'd0/f0', 'd0', 'd0/e', 'L0', 'd0/L1', 'h0', 'h1', 'd0/h2', 'x', 'd0/e/L2', 'a/.', 'd/', 'd0/e/']
    for i in range(rng.randint(2, 7)):
        kind = rng.choice(['file', 'file', 'dir', 'sym', 'hard', 'hard', 'hard'])
        name = rng.choice(names)
        link = ''
        if kind == 'sym':
            link = rng.choice(['f0', 'f1', 'd0', '../f0', '../..', '../../x', 'zz', 'd0/f0', '.', 'e', 'L0', '../L0', 'h0'])
        if kind == 'hard':
            prev = [m['name'] for m in ms] or ['f0']
            link = rng.choice(prev + prev + ['f0', 'd0', 'nothere', 'd0/./f0', './f0', 'd0//f0', 'zz/../f0', 'd0/../f0', 'L0', 'd0/L1',
                                             'd0/e/L2', 'd0/e', 'f0/', 'f0/.', 'd0/', '.', ''])
        ms.append({'kind': kind, 'name': name, 'linkname': link, 'content': i + 1})
    return ms


def gen_case(rng):
    benign = rng.random() < 0.4
    if not benign and rng.random() < 0.35:
        return {'members': gen_linky(rng), 'benign': False, 'gz': rng.random() < 0.5, 'ro_decoys': rng.random() < 0.5, 'linky': True}
    return {'members': gen_members(rng, benign), 'benign': benign, 'gz': rng.random() < 0.5, 'ro_decoys': rng.random() < 0.5}


def _M(kind, name, link='', c=1):
    return {'kind': kind, 'name': name, 'linkname': link, 'content': c}


# the copy fallbacks of TarFile.makelink, one archive per branch of Model/C18.lean `placeFinal` / `chain`
FALLBACK_CASES = [
    [_M('file', 'f0', c=1), _M('hard', 'h', 'f0', 2)],                                   # os.link
    [_M('sym', 'L', 'f0', 1), _M('hard', 'h', 'L', 2)],                                   # target absent: copy of the link found before
    [_M('file', 'f0', c=1), _M('sym', 'L', 'f0', 2), _M('hard', 'h', 'L', 3)],             # os.link does not follow: a second link
    [_M('sym', 'd0/e/L', '../../x', 1), _M('hard', 'h', 'd0/e/L', 2), _M('file', 'h', c=3)],   # the copied link points outside: refused later
    [_M('sym', 'd0/e/L', '../..', 1), _M('hard', 'h', 'd0/e/L', 2), _M('file', 'h/pwn', c=3)],
    [_M('dir', 'd0'), _M('hard', 'h', 'd0', 2)],                                          # EPERM: copy of the directory member
    [_M('file', 'd0/f', c=1), _M('hard', 'h', 'd0', 2), _M('file', 'g', c=3)],              # no member named d0: skipped
    [_M('file', 'f0', c=1), _M('file', 'h', c=2), _M('hard', 'h', 'f0', 3)],                # EEXIST: extracted over
    [_M('file', 'f0', c=1), _M('sym', 'h', 'newfile', 2), _M('hard', 'h', 'f0', 3)],        # ... through a dangling link
    [_M('hard', 'h', 'nothere', 1), _M('file', 'g', c=2)],                                 # KeyError
    [_M('file', 'd0/f', c=1), _M('hard', 'h', 'd0', 2), _M('hard', 'h2', 'h', 3), _M('file', 'g', c=4)],   # a hard link found: its own search
    [_M('file', 'd0/f0', c=1), _M('hard', 'h', 'd0/./f0', 2), _M('hard', 'h3', './d0//f0', 3)],
    [_M('file', 'f0', c=1), _M('dir', 'x'), _M('hard', 'x', 'f0', 3)],                      # onto a directory
    [_M('file', 'f0', c=1), _M('file', 'f0', c=2), _M('sym', 'f0', 'zz', 3), _M('hard', 'h', 'f0', 4)],    # the LATEST member of that name
    [_M('file', 'f0', c=1), _M('hard', 'd/', 'f0', 2)], [_M('file', 'f0'), _M('hard', 'a/.', 'f0')],
    [_M('file', 'd/', c=1)], [_M('file', 'a/.', c=1)], [_M('file', 'a/b//', c=1)], [_M('dir', 'a/b/')], [_M('sym', 'a/b/', 'f0')],
    [_M('sym', 'x', 'd0', 1), _M('sym', 'a/.', '../L0', 2)],                               # a link onto a directory: skipped
    [_M('file', 'd0/e', c=1), _M('sym', 'd0', 'd0', 2)],                                   # ... whose target names itself: RecursionError
    [_M('file', 'd0/e', c=1), _M('dir', 'k'), _M('sym', 'd0', 'k', 3), _M('file', 'g', c=4)],  # ... whose target is a directory member: nothing
    [_M('file', 'd0/e', c=1), _M('sym', 'd0', 'late', 2), _M('file', 'late', c=3)],          # ... found LATER in the archive: a file onto a directory
    [_M('file', 'd0', c=1), _M('hard', 'd0/h2', 'd0/e', 2)], [_M('file', 'd0', c=1), _M('file', 'f'), _M('hard', 'd0/h2', 'f', 3)],
    [_M('file', 'f0', c=1), _M('hard', 'h', 'f0', 2), _M('file', 'f0', c=5)],               # one inode, two names
]


def cases(rng, tier):
    n = 300 if tier == 'quick' else 6000
    out = [gen_case(rng) for _ in range(n)]
    out += [{'members': ms, 'benign': False, 'gz': False, 'linky': True} for ms in FALLBACK_CASES]
    # the chain from the design notes: d -> x/y/z, l -> d/../../.., x -> ., then l/pwn
    out.append({'members': [{'kind': 'sym', 'name': 'd', 'linkname': 'x/y/z', 'content': 1},
                            {'kind': 'sym', 'name': 'l', 'linkname': 'd/../../..', 'content': 2},
                            {'kind': 'sym', 'name': 'x', 'linkname': '.', 'content': 3},
                            {'kind': 'file', 'name': 'l/pwn', 'linkname': '', 'content': 4}], 'benign': False, 'gz': False})
    # escapes that only exist once EARLIER members of the same archive are on disk (a filter run against the empty
    # directory, or against names only, accepts every member of these):
    out.append({'members': [{'kind': 'sym', 'name': 'd1/d2/up', 'linkname': '../..', 'content': 1},
                            {'kind': 'file', 'name': 'd1/d2/up/../escaped_A.txt', 'linkname': '', 'content': 2}], 'benign': False, 'gz': False})
    out.append({'members': [{'kind': 'sym', 'name': 'd1/up', 'linkname': '..', 'content': 1},
                            {'kind': 'file', 'name': 'd1/up/../decoy.txt', 'linkname': '', 'content': 2}], 'benign': False, 'gz': True})
    for tail in ('victim.txt', 'decoy.txt', 'outside_dir/keep.txt'):
        out.append({'members': [{'kind': 'sym', 'name': 'here', 'linkname': '.', 'content': 1},
                                {'kind': 'sym', 'name': 'esc', 'linkname': 'here/..', 'content': 2},
                                {'kind': 'file', 'name': 'esc/' + tail, 'linkname': '', 'content': 3}], 'benign': False, 'gz': False})
        out.append({'members': [{'kind': 'sym', 'name': 'd0/here', 'linkname': '.', 'content': 1},
                                {'kind': 'sym', 'name': 'd0/esc', 'linkname': 'here/../..', 'content': 2},
                                {'kind': 'file', 'name': 'd0/esc/' + tail, 'linkname': '', 'content': 3}], 'benign': False, 'gz': False})
    # the member lands inside, the parent directories created on the way (os.makedirs on the literal path) do not
    for name in ('../newdir/../{DEST}/x.txt', '../n1/n2/../../{DEST}/y.txt', '../outside_dir/fresh/../../{DEST}/w.txt',
                 'd0/../../side/../{DEST}/d0/z.txt'):
        for kind in ('file', 'dir', 'sym'):
            out.append({'members': [{'kind': kind, 'name': name, 'linkname': 'f0' if kind == 'sym' else '', 'content': 1}],
                        'benign': False, 'gz': False})
    # members NAMED like files that exist outside (relative and absolute names), writable or read-only: refused or extracted
    # inside, the outside file must still be there, unchanged
    for name in ('../decoy.txt', '../outside_dir/keep.txt', '../../grand.txt', 'd0/../../decoy.txt', '{PARENT}/decoy.txt',
                 '{PARENT}/outside_dir/keep.txt'):
        for ro in (False, True):
            out.append({'members': [{'kind': 'file', 'name': name, 'linkname': '', 'content': 1}], 'benign': False, 'gz': ro,
                        'ro_decoys': ro})
    # a link to a file that exists outside, then a regular member of the same name writing through it; every depth of
    # the link's own directory, because a filter that resolves hard-link targets from the wrong base is depth-sensitive
    for target in ('../decoy.txt', '../outside_dir/keep.txt', '../../grand.txt'):
        for name in ('h', 'd0/h', 'd0/sub/h', 'a/b/c/h'):
            for kind in ('hard', 'sym'):
                out.append({'members': [{'kind': kind, 'name': name, 'linkname': target, 'content': 1},
                                        {'kind': 'file', 'name': name, 'linkname': '', 'content': 2}], 'benign': False, 'gz': False})
    return out


def build_archive(case, path, dest_name, parent_abs=''):
    mode = 'w:gz' if case['gz'] else 'w'
    with tarfile.open(path, mode, format=tarfile.GNU_FORMAT) as tf:
        for m in case['members']:
            ti = tarfile.TarInfo(m['name'].replace('{DEST}', dest_name).replace('{PARENT}', parent_abs))
            ti.mtime = 0
            ti.mode = 0o644
            if m['kind'] == 'file':
                data = ('content %d' % m['content']).encode()
                ti.size = len(data)
                tf.addfile(ti, io.BytesIO(data))
            elif m['kind'] == 'dir':
                ti.type = tarfile.DIRTYPE
                ti.mode = 0o755
                tf.addfile(ti)
            elif m['kind'] == 'sym':
                ti.type = tarfile.SYMTYPE
                ti.linkname = m['linkname'].replace('{DEST}', dest_name)
                tf.addfile(ti)
            elif m['kind'] == 'hard':
                ti.type = tarfile.LNKTYPE
                ti.linkname = m['linkname'].replace('{DEST}', dest_name)
                tf.addfile(ti)
            else:
                ti.type = tarfile.FIFOTYPE
                tf.addfile(ti)


def snapshot(top, exclude=None):
    snap = {}
    for dp, dns, fns in os.walk(top):
        if exclude and (dp == exclude or dp.startswith(exclude + os.sep)):
            dns[:] = []
            continue
        for n in list(dns) + fns:
            full = os.path.join(dp, n)
            if exclude and full == exclude:
                continue
            rel = os.path.relpath(full, top)
            if os.path.islink(full):
                snap[rel] = ['link', os.readlink(full)]
            elif os.path.isdir(full):
                snap[rel] = ['dir', None]
            elif not stat.S_ISREG(os.lstat(full).st_mode):
                snap[rel] = ['special', None]
            else:
                try:
                    snap[rel] = ['file', open(full, 'rb').read().decode('latin1'), stat.S_IMODE(os.lstat(full).st_mode)]
                except OSError:
                    snap[rel] = ['special', None]
    return snap


class _Blocked(BaseException):
    pass


def run_real(case):
    k = json.dumps(case, sort_keys=True)
    if k in _cache:
        return _cache[k]
    _cache.clear()
    from kapture.converter.downloader.archives import untar_file
    base = tempfile.mkdtemp(prefix='c18_')
    try:
        sandbox = os.path.join(base, 'sandbox', 'parent')
        dest = os.path.join(sandbox, 'install')
        os.makedirs(dest)
        for decoy in ('decoy.txt', 'outside_dir/keep.txt', '../grand.txt'):
            p = os.path.normpath(os.path.join(sandbox, decoy))
            os.makedirs(os.path.dirname(p), exist_ok=True)
            with open(p, 'w') as f:
                f.write('decoy')
            if case.get('ro_decoys'):
                os.chmod(p, 0o444)        # files their owner cannot write: nothing may remove or replace them either
        arch = os.path.join(base, 'a.tar.gz')
        build_archive(case, arch, 'install', sandbox)
        top = os.path.join(base, 'sandbox')
        before = snapshot(top, exclude=dest)
        abs_before = {p: os.path.exists(p) for p in ['/tmp/c18_abs_%d' % i for i in range(8)]}
        def _alarm(signum, frame):
            # NOT an OSError (TimeoutError is one): tarfile swallows OSErrors at errorlevel 0 and would go on to the next blocking
            # call; and the timer repeats, for the same reason
            raise _Blocked('untar_file blocked (special file opened?)')
        old = signal.signal(signal.SIGALRM, _alarm)
        signal.setitimer(signal.ITIMER_REAL, 2.0, 2.0)
        try:
            untar_file(arch, dest)
            err = None
        except _Blocked:
            err = 'other:Blocked'
        except tarfile.FilterError as e:
            err = 'filter:' + type(e).__name__
        except OSError as e:
            err = 'os:' + type(e).__name__
        except Exception as e:
            err = 'other:' + type(e).__name__
        finally:
            signal.setitimer(signal.ITIMER_REAL, 0)
            signal.signal(signal.SIGALRM, old)
        after = snapshot(top, exclude=dest)
        abs_after = {p: os.path.exists(p) for p in abs_before}
        inside = snapshot(dest)
        res = {'error': err, 'outside_same': before == after and abs_before == abs_after,
               'outside_diff': sorted(set(map(json.dumps, before.items())) ^ set(map(json.dumps, after.items())))[:4],
               'inside': inside, 'dest': [c for c in os.path.realpath(dest).split('/') if c]}
        for p, was in abs_before.items():
            if not was and os.path.lexists(p):
                if os.path.isdir(p) and not os.path.islink(p):
                    shutil.rmtree(p, ignore_errors=True)
                else:
                    os.remove(p)
    finally:
        shutil.rmtree(base, ignore_errors=True)
    _cache[k] = res
    return res


def run_impl(case):
    r = run_real(case)
    tree = []
    for rel, v in sorted(r['inside'].items()):
        if v[0] == 'file':
            c = v[1]
            tree.append([rel, 'file', int(c.split()[-1]) if c.startswith('content ') else -1])
        elif v[0] == 'dir':
            tree.append([rel, 'dir', None])
        elif v[0] == 'link':
            tree.append([rel, 'link', v[1]])
        else:
            tree.append([rel, 'special', None])
    return {'tree': tree, 'error': r['error']}


def to_model(case):
    r = run_real(case)
    parent = '/' + '/'.join(r['dest'][:-1])
    return [{'dest': r['dest'], 'members': [dict(m, name=m['name'].replace('{DEST}', 'install').replace('{PARENT}', parent),
                                                 linkname=m['linkname'].replace('{DEST}', 'install')) for m in case['members']]}]


FILTER_ERRORS = {'OutsideDestinationError', 'SpecialFileError', 'AbsoluteLinkError', 'LinkOutsideDestinationError', 'AbsolutePathError'}


def compare(case, io_, mo):
    mo = mo[0]
    if 'tree' not in mo:
        return f'model error {mo}'
    me = mo['error']
    ie = io_['error']
    if me == 'unmodelled':
        return 'model: `unmodelled`, which Props/C18.lean untar_never_unmodelled proves unreachable'
    if me == 'ELOOP' and ie != 'os:OSError':
        # a cycle of symbolic links: the model's realpath gives up (extraction stops), os.path.realpath returns the unresolved path
        # and the extraction goes on until the kernel refuses the cycle; outside the model (see PARTIAL), the oracle still applies
        return None
    if me == 'escaped':
        # Props/C18.lean proves this verdict unreachable for the modelled code: reaching it means the code under test
        # creates an entry outside the install directory according to the model (the oracle looks at the real tree)
        return f'model: an entry would be created outside the install directory (impl: {ie})'
    fam_m = None if me is None else ('filter' if me in FILTER_ERRORS else ('other' if me in ('KeyError', 'RecursionError') else 'os'))
    fam_i = None if ie is None else ie.split(':')[0]
    if fam_m != fam_i:
        return f'error: impl {ie} model {me}'
    if me in FILTER_ERRORS and ie != 'filter:' + me:
        return f'filter error class: impl {ie} model {me}'
    it, mt = io_['tree'], mo['tree']
    if any(m['kind'] == 'hard' for m in case['members']):
        # names made by os.link share ONE inode: a later member written through one of them changes what all of them hold; the
        # model keeps a copy per name, so the CONTENT of regular files is not compared for archives with a hard link (kinds,
        # places and link targets are)
        it = [[e[0], e[1], None if e[1] == 'file' else e[2]] for e in it]
        mt = [[e[0], e[1], None if e[1] == 'file' else e[2]] for e in mt]
    if it != mt:
        a = [t for t in io_['tree'] if t not in mo['tree']]
        b = [t for t in mo['tree'] if t not in io_['tree']]
        return f'tree: impl-only {a[:4]} model-only {b[:4]}'
    return None


def oracle(case):
    r = run_real(case)
    if not r['outside_same']:
        return {'signature': 'wrote-outside', 'detail': f'something outside the install directory changed: {r["outside_diff"]}'}
    for rel, v in r['inside'].items():
        if v[0] == 'special':
            return {'signature': 'special-file-extracted', 'detail': rel}
    if case['benign']:
        if r['error']:
            return {'signature': 'benign-archive-refused', 'detail': r['error']}
        last = {}
        for m in case['members']:
            last[os.path.normpath(m['name'])] = m
        for name, m in last.items():
            if m['kind'] != 'file':
                continue
            v = r['inside'].get(name)
            # a later symlink / dir of the same name may legitimately replace it; only check files still expected
            if v is None or v[0] != 'file':
                # tolerated only if a later member has the same normalised name
                continue
            if v[1] != 'content %d' % m['content']:
                return {'signature': 'benign-content', 'detail': f'{name}: {v[1]!r}'}
            if (v[2] & 0o600) != 0o600:
                return {'signature': 'benign-permissions', 'detail': f'{name}: mode {oct(v[2])}'}
        files = [os.path.normpath(m['name']) for m in case['members'] if m['kind'] == 'file']
        for name in files:
            if name not in r['inside']:
                return {'signature': 'benign-member-missing', 'detail': name}
    return None


def nontrivial(case):
    if case['benign']:
        return None
    return json.dumps(case['members'])


def distribution(cases_):
    d = {}
    for c in cases_:
        d['benign' if c['benign'] else 'hostile'] = d.get('benign' if c['benign'] else 'hostile', 0) + 1
        if c.get('linky'):
            d['link-fallback archives'] = d.get('link-fallback archives', 0) + 1
        for m in c['members']:
            d['kind:' + m['kind']] = d.get('kind:' + m['kind'], 0) + 1
    return d


def shrink(case, still_fails):
    ms = list(case['members'])
    changed = True
    while changed and len(ms) > 1:
        changed = False
        for i in range(len(ms) - 1, -1, -1):
            cand = ms[:i] + ms[i + 1:]
            if cand and still_fails(dict(case, members=cand)):
                ms, changed = cand, True
                break
    return dict(case, members=ms)
