"""
C19 — clearing a dataset directory removes only dataset files, with consent.
Correspondence: kapture.io.structure.delete_existing_kapture_files run on real sandbox directories (every dataset path
absent / file / folder / symlink to an outside file, folder or nothing; user files alongside, or user links / empty folders only, or nothing) versus Model/C19.lean on the
same only/skip/force/answer and path kinds.  Compared: outcome class and the set of deleted paths.
Oracle (implementation only): snapshots of the sandbox and of the outside area before and after the call.
"""
import builtins
import os
import shutil
import tempfile

ID = 'C19'
TITLE = 'Clearing a dataset directory removes only dataset files, with consent'
GEN = ['DeleteRules']
RULE = ('each case draws a kind (absent/file/folder/link-to-file/link-to-folder/dangling link) for each of the 19 dataset paths, '
        'an only or skip selection (none, random subset, every single type), force or an answer from a pool; user files alongside, '
        'some carrying the name a dataset entry has in the OTHER sub-folder (reconstruction/trajectories.txt, sensors/points3d.txt); distinct '
        'non-trivial = distinct (kinds, selection, consent) with at least one existing dataset path')
ASSUMPTIONS = [
    'os.remove / shutil.rmtree / path.lexists / islink / isfile behave as POSIX documents (observed through snapshots)',
    'only/skip hold kapture part types (keys of CSV_FILENAMES / FEATURES_DATA_DIRNAMES); user subclasses are outside',
    'skip=[RecordsBase] does not protect records_data in the code (the key is documented "prefer RecordsCamera, Lidar"); the '
    'model and the oracle follow the code there (DESIGN §7, not a finding)',
]
KINDS = ['absent', 'file', 'dir', 'linkFile', 'linkDir', 'linkDangling']
ANSWERS = ['y', 'Y', 'n', '', 'yes', 'N', ' y', 'Yes']

_T = None


def tables():
    global _T
    if _T is None:
        import kapture
        from kapture.io.csv import CSV_FILENAMES
        from kapture.io.features import FEATURES_DATA_DIRNAMES
        from kapture.io.records import RECORD_DATA_DIRNAME
        from kapture.utils.paths import path_secure
        csv = [(t.__name__, path_secure(p)) for t, p in CSV_FILENAMES.items()]
        feat = [(t.__name__, path_secure(p)) for t, p in FEATURES_DATA_DIRNAMES.items()]
        _T = {'csv': csv, 'feat': feat, 'rec': path_secure(RECORD_DATA_DIRNAME),
              'paths': sorted({p for _, p in csv} | {p for _, p in feat} | {path_secure(RECORD_DATA_DIRNAME)}),
              'types': [t for t, _ in csv] + [t for t, _ in feat]}
    return _T


def type_of(name):
    import kapture
    return getattr(kapture, name)


# ---------------------------------------------------------------------------------------------------- sandbox

USER_FILES = ['my_notes.txt', 'sensors/calibration.yaml', 'reconstruction/keypoints_backup/a.kpt', 'images/0.jpg',
              # the user's, although they carry the NAME a dataset entry has in the other sub-folder
              'reconstruction/trajectories.txt', 'sensors/points3d.txt', 'sensors/keypoints/mine.kpt', 'reconstruction/records_data/mine.jpg',
              'trajectories.txt', 'matches/mine.matches']


def build(case, base):
    root = os.path.join(base, 'root')
    outside = os.path.join(base, 'outside')
    os.makedirs(root)
    os.makedirs(os.path.join(outside, 'dirT', 'sub'))
    for fn in ('fileT', 'dirT/f1', 'dirT/sub/f2'):
        with open(os.path.join(outside, fn), 'w') as f:
            f.write('outside ' + fn)
    user = case.get('user', 'files')
    if user == 'files':
        for uf in USER_FILES:
            os.makedirs(os.path.dirname(os.path.join(root, uf)), exist_ok=True)
            with open(os.path.join(root, uf), 'w') as f:
                f.write('user ' + uf)
    elif user == 'links':
        # what the user keeps inside sensors/ and reconstruction/ holds NO regular file: a link to a folder elsewhere, an empty
        # folder (a sub-folder that "looks empty" to a file listing is still the user's)
        with open(os.path.join(root, 'my_notes.txt'), 'w') as f:
            f.write('user my_notes.txt')
        os.makedirs(os.path.join(root, 'reconstruction'), exist_ok=True)
        os.symlink(os.path.join(outside, 'dirT'), os.path.join(root, 'reconstruction', 'colmap_ws'))
        os.makedirs(os.path.join(root, 'sensors', 'my_empty_folder'))
        os.makedirs(os.path.join(root, 'reconstruction', 'scratch', 'deeper'))
    for p, k in case['kinds'].items():
        full = os.path.join(root, p)
        os.makedirs(os.path.dirname(full), exist_ok=True)
        if k == 'file':
            with open(full, 'w') as f:
                f.write('data ' + p)
        elif k == 'dir':
            os.makedirs(os.path.join(full, 'x', 'y'))
            with open(os.path.join(full, 'x', 'y', 'z.bin'), 'w') as f:
                f.write('blob')
        elif k == 'linkFile':
            os.symlink(os.path.join(outside, 'fileT'), full)
        elif k == 'linkDir':
            os.symlink(os.path.join(outside, 'dirT'), full)
        elif k == 'linkDangling':
            os.symlink(os.path.join(outside, 'nowhere'), full)
    return root, outside


def snapshot(top):
    snap = {}
    for d, dirs, files in os.walk(top):
        for n in list(dirs) + files:
            full = os.path.join(d, n)
            rel = os.path.relpath(full, top)
            if os.path.islink(full):
                snap[rel] = ('link', os.readlink(full))
            elif os.path.isdir(full):
                snap[rel] = ('dir',)
            else:
                with open(full) as f:
                    snap[rel] = ('file', f.read())
    return snap


def call(case):
    """ runs the real function in a sandbox; returns (result, before, after, outside_before, outside_after, asked) """
    from kapture.io.structure import delete_existing_kapture_files
    base = tempfile.mkdtemp(prefix='c19_')
    try:
        root, outside = build(case, base)
        before, obefore = snapshot(root), snapshot(outside)
        asked = []
        orig = builtins.input

        def fake_input(prompt=''):
            asked.append(prompt)
            return case['answer']
        builtins.input = fake_input
        try:
            only = [type_of(n) for n in case['only']] if case['only'] is not None else None
            skip = [type_of(n) for n in case['skip']] if case['skip'] is not None else None
            try:
                delete_existing_kapture_files(root, case['force'], only=only, skip=skip)
                res = 'returned'
            except ValueError as e:
                res = 'ValueError' if 'already exist' in str(e) else 'error:ValueError'
            except Exception as e:
                res = 'error:' + type(e).__name__
        finally:
            builtins.input = orig
        after, oafter = snapshot(root), snapshot(outside)
        return res, before, after, obefore, oafter, asked
    finally:
        shutil.rmtree(base, ignore_errors=True)


def deleted_top(case, before, after):
    t = tables()
    return sorted(p for p in t['paths'] if p in before and p not in after)


def run_impl(case):
    res, before, after, ob, oa, asked = call(case)
    dele = deleted_top(case, before, after)
    if res == 'returned':
        out = 'deleted' if dele else 'nothing'
    elif res == 'ValueError':
        out = 'refused'
    else:
        out = res
    return {'outcome': out, 'deleted': dele}


def to_model(case):
    return [{'only': case['only'] or [], 'skip': case['skip'] or [], 'force': case['force'], 'answer': case['answer'],
             'kinds': case['kinds']}]


def compare(case, io, mo):
    mo = mo[0]
    if 'error' in mo:
        return f'model error {mo}'
    if io['outcome'] != mo['outcome']:
        return f'outcome: impl {io} model {mo}'
    mdel = sorted(p for p, _ in mo.get('plan', []))
    if io['deleted'] != mdel:
        return f'deleted paths: impl {io["deleted"]} model {mdel}'
    return None


# ---------------------------------------------------------------------------------------------------- oracle

def selected(case, tname):
    if case['only']:
        return tname in case['only']
    if case['skip']:
        return tname not in case['skip']
    return True


def oracle(case):
    t = tables()
    res, before, after, ob, oa, asked = call(case)
    if ob != oa:
        return {'signature': 'outside-touched', 'detail': f'outside area changed: {set(ob.items()) ^ set(oa.items())}'}
    consent = case['force'] or case['answer'].lower() == 'y'
    if res.startswith('error:'):
        return {'signature': 'raises:' + res[6:], 'detail': f'the call raised {res[6:]}'}
    for uf in USER_FILES:
        parts = uf.split('/')
        for i in range(1, len(parts) + 1):
            rel = '/'.join(parts[:i])
            if rel in t['paths']:
                break
            if before.get(rel) != after.get(rel):
                return {'signature': 'foreign-touched', 'detail': f'user path {rel} changed'}
    if not consent:
        if before != after:
            return {'signature': 'deleted-without-consent', 'detail': f'changed: {sorted(set(before) - set(after))}'}
        return None
    # with consent: exactly the selected existing paths go
    stores = {'RecordsCamera', 'RecordsDepth', 'RecordsLidar'}
    needs = any(not selected(case, s) for s in stores)
    expect = set()
    for tn, p in t['csv']:
        if p in before and selected(case, tn):
            expect.add(p)
    for tn, p in t['feat']:
        if p != t['rec'] and p in before and selected(case, tn):
            expect.add(p)
    if t['rec'] in before and not needs:
        expect.add(t['rec'])
    got = set(deleted_top(case, before, after))
    if got != expect:
        return {'signature': 'deleted-set', 'detail': f'deleted {sorted(got)}, the selection implies {sorted(expect)}'}
    # nothing else changed inside
    for rel in before:
        top = next((p for p in t['paths'] if rel == p or rel.startswith(p + '/')), None)
        if top in got:
            continue
        if before[rel] != after.get(rel):
            return {'signature': 'collateral', 'detail': f'{rel} changed although {top} was not selected'}
    return None


# ---------------------------------------------------------------------------------------------------- generators

def gen_kinds(rng, density):
    t = tables()
    kinds = {}
    for p in t['paths']:
        if rng.random() < density:
            kinds[p] = rng.choice(KINDS[1:])
    return kinds


def gen_case(rng, sel=None):
    t = tables()
    density = rng.choice([0.0, 0.15, 0.5, 0.9, 1.0])
    kinds = gen_kinds(rng, density)
    if sel is None:
        mode = rng.choice(['none', 'only', 'skip', 'only1', 'skip1', 'both', 'empty'])
        k = rng.randint(1, 6)
        if mode == 'none':
            sel = (None, None)
        elif mode == 'empty':
            sel = ([], [])
        elif mode == 'only':
            sel = (rng.sample(t['types'], k), None)
        elif mode == 'skip':
            sel = (None, rng.sample(t['types'], k))
        elif mode == 'only1':
            sel = ([rng.choice(t['types'])], None)
        elif mode == 'skip1':
            sel = (None, [rng.choice(t['types'])])
        else:
            sel = (rng.sample(t['types'], k), rng.sample(t['types'], rng.randint(1, 4)))
    force = rng.random() < 0.4
    return {'kinds': kinds, 'only': sel[0], 'skip': sel[1], 'force': force, 'answer': rng.choice(ANSWERS),
            'user': rng.choice(['files', 'files', 'links', 'none'])}


def cases(rng, tier):
    t = tables()
    out = []
    # every single-type only / skip selection on a full and on a records_data-less directory, forced
    for tn in t['types']:
        for which in ('only', 'skip'):
            for drop_rec in (False, True):
                kinds = {p: 'dir' if '.' not in p.split('/')[-1] else 'file' for p in t['paths']}
                if drop_rec:
                    del kinds[t['rec']]
                out.append({'kinds': kinds, 'only': [tn] if which == 'only' else None,
                            'skip': [tn] if which == 'skip' else None, 'force': True, 'answer': ''})
            # ... and on a directory whose folders are links to a store elsewhere, the user keeping no regular file in sensors/
            # and reconstruction/: what survives there is links and empty folders only
            kinds = {p: 'linkDir' if '.' not in p.split('/')[-1] else 'file' for p in t['paths']}
            out.append({'kinds': kinds, 'only': [tn] if which == 'only' else None,
                        'skip': [tn] if which == 'skip' else None, 'force': True, 'answer': '', 'user': 'links'})
    n = 350 if tier == 'quick' else 8000
    for _ in range(n):
        out.append(gen_case(rng))
    return out


def nontrivial(case):
    if not case['kinds']:
        return None
    return (tuple(sorted(case['kinds'].items())), tuple(case['only'] or ()), tuple(case['skip'] or ()),
            case['force'] or case['answer'].lower() == 'y')


def distribution(cases_):
    d = {}
    for c in cases_:
        m = ('only' if c['only'] else '') + ('skip' if c['skip'] else '') or 'none'
        d['sel:' + m] = d.get('sel:' + m, 0) + 1
        d['consent' if (c['force'] or c['answer'].lower() == 'y') else 'no-consent'] = \
            d.get('consent' if (c['force'] or c['answer'].lower() == 'y') else 'no-consent', 0) + 1
        for k in c['kinds'].values():
            d['kind:' + k] = d.get('kind:' + k, 0) + 1
    return d
