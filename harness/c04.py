"""
C04 — a loaded dataset has no dangling references and loses nothing that resolves.
Correspondence: kapture_from_dir on real directories obtained from a valid generated dataset by injecting dangling entries
(unknown / wrong-kind sensors in every records file, unknown devices in trajectories and rigs, a rig id colliding with a
sensor id, feature files for unlisted images, listed images without feature files, observations on missing types or images),
any version string, directory or tar storage, versus Model/C04.lean.loadDir on the rows read back from those files.
Oracle (implementation only): referential closure checked directly on the loaded object; everything of the ORIGINAL valid
dataset is still there; newer versions are refused; other versions load the sensors side only.
"""
import json
import os
import re
import shutil
import tarfile
import tempfile

import kgen
import mergecommon as mc

ID = 'C04'
TITLE = 'A loaded dataset has no dangling references and loses nothing that resolves'
GEN = ['Headers', 'FileNames']
RULE = ('each case = a valid generated dataset plus a random subset of injections {ghost sensor rows per records file, wrong-kind '
        'sensor rows, ghost trajectory / rig member / rig-sensor collision, orphan feature file, missing feature file, ghost '
        'observation type / image, version string from a pool incl. 1.0 0.9 1.1 1.2 2.0 10.0 1.10 1.1.3 and none}, tar packing of '
        'feature kinds; distinct non-trivial = distinct cases with at least one injection')
ASSUMPTIONS = [
    'the text layer (rows of each file) is C01\'s business: the model starts from the rows table_from_file returns',
    'files hold each key once (a repeated key is a dict overwrite; outside the model)',
    'payload values are not compared here (C01), only which keys are kept',
    '"newer" is the code\'s decimal order: 1.10 is not newer than 1.1 but is not the current version either, so it loads like an '
    'older one (documented ambiguity, not a finding)',
    'directories lacking records_camera.txt while holding features, or holding observations without keypoints/points3d, are outside '
    'the quantifier; the loader asserts, the model reports the same error class',
]
TRUSTED = ['kgen.py dataset generator']
VERSIONS = ['1.1', '1.1', '1.1', '1.1', '1.0', '0.9', '1.2', '2.0', '10.0', '1.10', '1.1.3', None]
REC_KINDS = ['records_camera', 'records_depth', 'records_lidar', 'records_wifi', 'records_bluetooth', 'records_gnss',
             'records_accelerometer', 'records_gyroscope', 'records_magnetic']
REC_ROW = {'records_camera': 'ghost.jpg', 'records_depth': 'ghost.depth', 'records_lidar': 'ghost.pcd',
           'records_wifi': 'AA:AA, 2400, -50.0, net, 0, 0', 'records_bluetooth': 'BB:BB, -60.0, dev',
           'records_gnss': '1.0, 2.0, 3.0, 0, 0.0', 'records_accelerometer': '1.0, 2.0, 3.0', 'records_gyroscope': '1.0, 2.0, 3.0',
           'records_magnetic': '1.0, 2.0, 3.0'}
TAGGED = ('records_camera', 'records_depth', 'records_lidar', 'records_wifi', 'records_bluetooth')
_cache = {}


def gen_case(rng):
    opts = kgen.Opts(p_part=rng.choice([0.6, 0.9]), id_pool=4, fancy_ids=False, ts_style='small', max_rows=4, image_pool=5,
                     partial_poses=False, nested_rigs=rng.random() < 0.4, dtypes=['float32'])
    cross = rng.random() < 0.25
    if cross:
        # the cross-type dangling observation needs two keypoints types with different image coverage and observations
        opts.force_parts = {'records_camera', 'keypoints', 'points3d', 'observations'}
        opts.min_kp_types = 2
        opts.image_pool = 6
        opts.max_rows = 6
    d = kgen.gen_dataset(rng, opts)
    inj = []
    kinds = ['ghost_record', 'wrong_kind_record', 'ghost_traj', 'ghost_rig_member', 'ghost_subrig', 'rig_collision', 'orphan_feature',
             'missing_feature', 'othercase_feature', 'linked_subdir', 'all_records_dangling', 'ghost_obs_type', 'ghost_obs_image', 'ghost_obs_other_type', 'ghost_match']
    for k in kinds:
        if (k == 'ghost_obs_other_type' and cross) or (k != 'ghost_obs_other_type' and rng.random() < 0.25):
            inj.append([k, rng.randrange(10 ** 6)])
    return {'d': d, 'inject': inj, 'version': rng.choice(VERSIONS), 'tar': sorted(k for k in ('keypoints', 'descriptors', 'matches')
                                                                                   if rng.random() < 0.2)}


def cases(rng, tier):
    n = 150 if tier == 'quick' else 4000
    return [gen_case(rng) for _ in range(n)]


def append_line(path, line):
    os.makedirs(os.path.dirname(path), exist_ok=True)
    if not os.path.exists(path):
        with open(path, 'w') as f:
            f.write('# kapture format: 1.1\n')
    with open(path, 'a') as f:
        f.write(line + '\n')


def inject(case, root):
    import random
    d = case['d']
    sens = d['sensors']
    for kind, salt in case['inject']:
        rng = random.Random(salt)
        if kind == 'ghost_record':
            part = rng.choice(REC_KINDS)
            append_line(os.path.join(root, 'sensors', part + '.txt'), f'{900 + rng.randrange(50)}, ghost_sensor, {REC_ROW[part]}')
        elif kind == 'wrong_kind_record':
            part = rng.choice(REC_KINDS)
            want = kgen.SENSOR_KIND_FOR_PART[part]
            others = [sid for sid, s in sens.items() if s['type'] != want]
            if others:
                append_line(os.path.join(root, 'sensors', part + '.txt'), f'{800 + rng.randrange(50)}, {rng.choice(others)}, {REC_ROW[part]}')
        elif kind == 'ghost_traj':
            append_line(os.path.join(root, 'sensors', 'trajectories.txt'), f'{700 + rng.randrange(50)}, ghost_device, 1, 0, 0, 0, 0, 0, 0')
        elif kind == 'ghost_rig_member':
            rid = rng.choice(list(d['rigs'])) if d['rigs'] else 'rig_new'
            append_line(os.path.join(root, 'sensors', 'rigs.txt'), f'{rid}, ghost_member, 1, 0, 0, 0, 0, 0, 0')
        elif kind == 'ghost_subrig':
            # a NESTED rig whose sub-rig lists only undeclared sensors (and has trajectory entries of its own)
            outer = rng.choice(list(d['rigs'])) if d['rigs'] and rng.random() < 0.5 else 'rig_outer'
            for l in ([f'{outer}, ghost_subrig, 1, 0, 0, 0, 0, 0, 0'] if rng.random() < 0.7 else []) + \
                     ['ghost_subrig, ghost_sensor_a, 1, 0, 0, 0, 0, 0, 0', 'ghost_subrig, ghost_sensor_b, 1, 0, 0, 0, 1, 0, 0']:
                append_line(os.path.join(root, 'sensors', 'rigs.txt'), l)
            if rng.random() < 0.7:
                append_line(os.path.join(root, 'sensors', 'trajectories.txt'), f'{720 + rng.randrange(20)}, ghost_subrig, 1, 0, 0, 0, 0, 0, 0')
        elif kind == 'rig_collision':
            append_line(os.path.join(root, 'sensors', 'rigs.txt'), f'{rng.choice(list(sens))}, {rng.choice(list(sens))}, 1, 0, 0, 0, 0, 0, 0')
        elif kind == 'orphan_feature' and d['keypoints']:
            ty = rng.choice(list(d['keypoints']))
            if 'keypoints' not in case['tar']:
                p = os.path.join(root, 'reconstruction', 'keypoints', ty, 'ghost_image.jpg.kpt')
                os.makedirs(os.path.dirname(p), exist_ok=True)
                open(p, 'wb').close()
        elif kind == 'missing_feature' and d['keypoints']:
            ty = rng.choice(list(d['keypoints']))
            ims = d['keypoints'][ty]['images']
            if ims and 'keypoints' not in case['tar']:
                p = os.path.join(root, 'reconstruction', 'keypoints', ty, rng.choice(ims) + '.kpt')
                if os.path.exists(p):
                    os.remove(p)
        elif kind == 'all_records_dangling':
            # every line of records_camera.txt names an undeclared sensor: no image is known any more, while feature and match
            # files are still there
            rc = os.path.join(root, 'sensors', 'records_camera.txt')
            if os.path.exists(rc):
                lines = open(rc).read().split('\n')
                out_lines = []
                for l in lines:
                    if l.strip() and not l.startswith('#'):
                        f = [x.strip() for x in l.split(',')]
                        f[1] = 'ghost_camera'
                        l = ', '.join(f)
                    out_lines.append(l)
                open(rc, 'w').write('\n'.join(out_lines))
        elif kind == 'othercase_feature' and d['keypoints']:
            # the data file of a listed image is missing, a file spelled with another case of the extension stands there
            ty = rng.choice(list(d['keypoints']))
            ims = d['keypoints'][ty]['images']
            if ims and 'keypoints' not in case['tar']:
                p = os.path.join(root, 'reconstruction', 'keypoints', ty, rng.choice(ims) + '.kpt')
                if os.path.exists(p):
                    os.rename(p, p[:-4] + '.KPT')
        elif kind == 'linked_subdir':
            # a folder of a feature type moved elsewhere and replaced by a symbolic link: every data file still exists
            for fk in ('keypoints', 'descriptors', 'global_features'):
                if fk in case['tar'] or not d.get(fk):
                    continue
                for ty in d[fk]:
                    tdir = os.path.join(root, 'reconstruction', fk, ty)
                    subs = sorted(x for x in os.listdir(tdir) if os.path.isdir(os.path.join(tdir, x)) and not os.path.islink(os.path.join(tdir, x)))
                    if subs:
                        sub = rng.choice(subs)
                        store = os.path.join(root, '_store_%s_%s_%s' % (fk, ty, sub))
                        if not os.path.exists(store):
                            shutil.move(os.path.join(tdir, sub), store)
                            os.symlink(store, os.path.join(tdir, sub))
        elif kind == 'ghost_obs_type' and d['observations'] is not None:
            append_line(os.path.join(root, 'reconstruction', 'observations.txt'), '0, ghost_type, img00.jpg, 3')
        elif kind == 'ghost_obs_image' and d['observations'] is not None and d['keypoints']:
            append_line(os.path.join(root, 'reconstruction', 'observations.txt'), f'0, {rng.choice(list(d["keypoints"]))}, ghost_image.jpg, 3')
        elif kind == 'ghost_obs_other_type' and d['observations'] is not None and d['keypoints'] and len(d['keypoints']) > 1:
            # an image that HAS keypoints of one type, observed under another type for which it has none
            for ty, v in d['keypoints'].items():
                others = [(t2, im) for t2, v2 in d['keypoints'].items() if t2 != ty for im in v2['images'] if im not in v['images']]
                if others:
                    _, im = rng.choice(others)
                    append_line(os.path.join(root, 'reconstruction', 'observations.txt'), f'0, {ty}, {im}, 3')
                    break
        elif kind == 'ghost_match' and d['matches'] and 'matches' not in case['tar']:
            ty = rng.choice(list(d['matches']))
            p = os.path.join(root, 'reconstruction', 'matches', ty, 'ghost_a.jpg.overlapping', 'ghost_b.jpg.matches')
            os.makedirs(os.path.dirname(p), exist_ok=True)
            open(p, 'wb').close()
    # version line of sensors.txt
    sp = os.path.join(root, 'sensors', 'sensors.txt')
    lines = open(sp).read().split('\n')
    if case['version'] is None:
        lines = lines[1:]
    else:
        lines[0] = f'# kapture format: {case["version"]}'
    open(sp, 'w').write('\n'.join(lines))


def disk_feature_names(tdir, ext):
    """ the image names whose data file EXISTS below a feature folder, by the format's rule <image name><ext> (exact spelling of
    the extension; folders that are symbolic links are folders): written without any kapture code """
    names = []
    for dp, _, fns in os.walk(tdir, followlinks=True):
        for fn in fns:
            if fn.endswith(ext) and os.path.exists(os.path.join(dp, fn)):
                names.append(os.path.relpath(os.path.join(dp, fn), tdir)[:-len(ext)].replace(os.sep, '/'))
    return sorted(names)


def dir_view(root, tar_handlers):
    """ what the model starts from: version + rows of every file + data files present """
    from kapture.io.csv import table_from_file
    import kapture
    import kapture.io.features as kf

    def rows(rel):
        p = os.path.join(root, rel)
        if not os.path.exists(p):
            return None
        with open(p) as f:
            return table_from_file(f)
    first = open(os.path.join(root, 'sensors', 'sensors.txt')).readline()
    m = re.search('# kapture format\\:\\s*(?P<version>\\d+\\.\\d+)', first)
    v = {'version': m['version'] if m else None}
    v['sensors'] = [[r[0], r[2]] for r in rows('sensors/sensors.txt')]
    r = rows('sensors/rigs.txt')
    v['rigs'] = None if r is None else [[x[0], x[1]] for x in r]
    r = rows('sensors/trajectories.txt')
    v['trajectories'] = None if r is None else [[int(x[0]), x[1]] for x in r]
    v['records'] = {}
    for part in REC_KINDS:
        r = rows(f'sensors/{part}.txt')
        if r is not None:
            v['records'][part] = [[int(x[0]), x[1], x[2] if part in TAGGED else ''] for x in r]
    for kind, cls, ext in (('keypoints', kapture.Keypoints, '.kpt'), ('descriptors', kapture.Descriptors, '.desc'),
                           ('global_features', kapture.GlobalFeatures, '.gfeat')):
        kdir = os.path.join(root, 'reconstruction', kind)
        if not os.path.exists(kdir):
            v[kind] = None
            continue
        coll = []
        for ty in sorted(os.listdir(kdir)):
            if not os.path.isfile(os.path.join(kdir, ty, kind + '.txt')):
                continue
            th = getattr(tar_handlers, kind).get(ty) if tar_handlers is not None else None
            if th is not None:
                names = sorted(kf.image_ids_from_feature_tar(cls, th))
            else:
                names = disk_feature_names(os.path.join(kdir, ty), ext)
            coll.append([ty, names])
        v[kind] = coll
    mdir = os.path.join(root, 'reconstruction', 'matches')
    if not os.path.exists(mdir):
        v['matches'] = None
    else:
        coll = []
        for ty in sorted(os.listdir(mdir)):
            if not os.path.isdir(os.path.join(mdir, ty)):
                continue
            th = tar_handlers.matches.get(ty) if tar_handlers is not None else None
            pairs = sorted(map(list, kf.matching_pairs_from_tar(th) if th is not None else kf.matching_pairs_from_dirpath(ty, root)))
            coll.append([ty, pairs])
        v['matches'] = coll
    v['points3d'] = os.path.exists(os.path.join(root, 'reconstruction', 'points3d.txt'))
    r = rows('reconstruction/observations.txt')
    if r is None:
        v['observations'] = None
    else:
        obs = []
        for row in r:
            idx, kt, pairs = int(row[0]), row[1], row[2:]
            if len(pairs) > 1:
                for img, fid in zip(pairs[0::2], pairs[1::2]):
                    obs.append([idx, kt, img, int(fid)])
        v['observations'] = obs
    return v


def loaded_view(k):
    d = kgen.describe(k)
    out = {'sensors': [[sid, s['type']] for sid, s in d['sensors'].items()],
           'rigs': None if d['rigs'] is None else sorted([rid, m] for rid, ms in d['rigs'].items() for m in ms),
           'trajectories': None if d['trajectories'] is None else sorted([ts, dev] for ts, dev, _ in d['trajectories']),
           'records': {}}
    for part in REC_KINDS:
        if d[part] is None:
            continue
        if part in ('records_wifi', 'records_bluetooth'):
            out['records'][part] = sorted([ts, dev, b] for ts, dev, sig in d[part] for b in sig)
        elif part in TAGGED:
            out['records'][part] = sorted([ts, dev, p] for ts, dev, p in d[part])
        else:
            out['records'][part] = sorted([ts, dev, ''] for ts, dev, _ in d[part])
    for kind in ('keypoints', 'descriptors', 'global_features'):
        out[kind] = None if d[kind] is None else sorted([ty, sorted(v['images'])] for ty, v in d[kind].items())
    out['matches'] = None if d['matches'] is None else sorted([ty, sorted(ps)] for ty, ps in d['matches'].items())
    out['points3d'] = d['points3d'] is not None
    out['observations'] = None if d['observations'] is None else sorted(d['observations'])
    return out


def pack(root, kinds):
    for kind, ext in (('keypoints', '.kpt'), ('descriptors', '.desc'), ('global_features', '.gfeat'), ('matches', '.matches')):
        if kind not in kinds:
            continue
        kdir = os.path.join(root, 'reconstruction', kind)
        if not os.path.isdir(kdir):
            continue
        for ty in sorted(os.listdir(kdir)):
            tdir = os.path.join(kdir, ty)
            if not os.path.isdir(tdir):
                continue
            files = [os.path.relpath(os.path.join(dp, fn), tdir) for dp, _, fns in os.walk(tdir) for fn in fns if fn.endswith(ext)]
            with tarfile.open(os.path.join(tdir, kind + '.tar'), 'w') as tf:
                for rel in sorted(files):
                    tf.add(os.path.join(tdir, rel), arcname=rel)
            for rel in files:
                os.remove(os.path.join(tdir, rel))


def run_real(case):
    k = json.dumps(case, sort_keys=True)
    if k in _cache:
        return _cache[k]
    _cache.clear()
    from kapture.io.csv import kapture_from_dir, get_all_tar_handlers
    base = tempfile.mkdtemp(prefix='c04_')
    res = {}
    try:
        root = os.path.join(base, 'k')
        kobj, _ = kgen.write_dataset(case['d'], root, 's')
        res['orig'] = loaded_view(kobj)
        pack(root, case['tar'])
        inject(case, root)
        th = get_all_tar_handlers(root)
        try:
            res['dir'] = dir_view(root, th)
            try:
                k_loaded = kapture_from_dir(root, tar_handlers=th)
                res['loaded'] = loaded_view(k_loaded)
                # a rig all of whose members were dropped is still a rig of the loaded dataset (an empty one)
                res['rig_ids'] = sorted(k_loaded.rigs.keys()) if k_loaded.rigs is not None else []
                res['error'] = None
            except Exception as e:
                res['loaded'], res['error'] = None, type(e).__name__
        finally:
            th.close()
    finally:
        shutil.rmtree(base, ignore_errors=True)
    _cache[k] = res
    return res


def run_impl(case):
    r = run_real(case)
    return {'error': r['error']} if r['error'] else r['loaded']


def to_model(case):
    return [run_real(case)['dir']]


def norm_model(mo):
    out = dict(mo)
    out['rigs'] = None if mo['rigs'] is None else sorted(mo['rigs'])
    out['trajectories'] = None if mo['trajectories'] is None else sorted(mo['trajectories'])
    out['records'] = {k: sorted(v) for k, v in mo['records'].items()}
    for kind in ('keypoints', 'descriptors', 'global_features'):
        out[kind] = None if mo[kind] is None else sorted([ty, sorted(ns)] for ty, ns in mo[kind])
    out['matches'] = None if mo['matches'] is None else sorted([ty, sorted(ps)] for ty, ps in mo['matches'])
    out['observations'] = None if mo['observations'] is None else sorted(mo['observations'])
    return out


def compare(case, io_, mo):
    mo = mo[0]
    if 'error' in io_ or 'error' in mo:
        return None if io_.get('error') == mo.get('error') else f'errors differ: impl={io_.get("error")} model={mo.get("error")}'
    m = norm_model(mo)
    for k in ('sensors', 'rigs', 'trajectories', 'records', 'keypoints', 'descriptors', 'global_features', 'matches', 'points3d',
              'observations'):
        if io_[k] != m[k]:
            return f'{k}: impl {str(io_[k])[:300]} model {str(m[k])[:300]}'
    return None


# ---------------------------------------------------------------------------------------------------- oracle

def cmp_version(v):
    """ the property's reading: numerically newer than 1.1 """
    a, b = v.split('.')[:2]
    return float(a + '.' + b) > 1.1


def oracle(case):
    r = run_real(case)
    collision = any(k == 'rig_collision' for k, _ in case['inject'])
    v = case['version']
    if v is not None and cmp_version(v):
        if r['error'] is None:
            return {'signature': 'newer-version-loaded', 'detail': f'version {v} was loaded'}
        return None
    if v is None:
        return None    # a sensors.txt without version line is outside the quantifier ("any version string")
    if collision:
        if r['error'] is None:
            return {'signature': 'collision-accepted', 'detail': 'a rig id equal to a sensor id was accepted'}
        return None
    if r['error']:
        return {'signature': 'raises:' + r['error'], 'detail': f'load failed with {r["error"]} (injections {case["inject"]})'}
    L = r['loaded']
    stype = dict(L['sensors'])
    rig_ids = {x[0] for x in (L['rigs'] or [])} | set(r.get('rig_ids') or [])
    for part, rows in L['records'].items():
        want = kgen.SENSOR_KIND_FOR_PART[part]
        for ts, dev, _ in rows:
            if stype.get(dev) != want:
                return {'signature': 'dangling-record', 'detail': f'{part} ({ts},{dev}) refers to {stype.get(dev)!r}, not a {want} sensor'}
    for ts, dev in (L['trajectories'] or []):
        if dev not in stype and dev not in rig_ids:
            return {'signature': 'dangling-trajectory', 'detail': f'({ts},{dev})'}
    for rid, m in (L['rigs'] or []):
        if m not in stype and m not in rig_ids:
            return {'signature': 'dangling-rig-member', 'detail': f'({rid},{m})'}
        if rid in stype:
            return {'signature': 'collision-accepted', 'detail': rid}
    current = v in ('1.1',) or v == '1.1.3'
    if not current:
        for k in ('keypoints', 'descriptors', 'global_features', 'matches', 'observations'):
            if L[k] is not None:
                return {'signature': 'old-version-reconstruction', 'detail': f'{k} loaded from a version {v} directory'}
        if L['points3d']:
            return {'signature': 'old-version-reconstruction', 'detail': 'points3d loaded'}
    else:
        images = {p for ts, dev, p in []}
        D = r['dir']
        images = {x[2] for x in L['records'].get('records_camera', [])}
        for kind in ('keypoints', 'descriptors', 'global_features'):
            disk = dict((ty, set(ns)) for ty, ns in (D[kind] or []))
            for ty, ns in (L[kind] or []):
                for n in ns:
                    if n not in images or n not in disk.get(ty, set()):
                        return {'signature': 'dangling-feature', 'detail': f'{kind}/{ty}/{n}'}
        for ty, ps in (L['matches'] or []):
            for a, b in ps:
                if a not in images or b not in images:
                    return {'signature': 'dangling-match', 'detail': f'{ty}: {a},{b}'}
        kp = dict((ty, set(ns)) for ty, ns in (L['keypoints'] or []))
        for idx, kt, img, fid in (L['observations'] or []):
            if kt not in kp or img not in kp[kt]:
                return {'signature': 'dangling-observation', 'detail': f'({idx},{kt},{img},{fid})'}
    # completeness: the original valid dataset is still there (injections only add dangling things or remove feature files)
    O = r['orig']
    removed_feature = any(k in ('missing_feature', 'othercase_feature', 'all_records_dangling') for k, _ in case['inject'])
    for k in ('sensors',):
        if O[k] != L[k]:
            return {'signature': 'lost:sensors', 'detail': f'{O[k]} -> {L[k]}'}
    for k in ('rigs', 'trajectories'):
        if O[k] is not None and not all(x in (L[k] or []) for x in O[k]):
            return {'signature': 'lost:' + k, 'detail': f'{[x for x in O[k] if x not in (L[k] or [])][:3]}'}
    for part, rows in O['records'].items():
        if part == 'records_gnss' and not any(t == 'gnss' for t in stype.values()):
            continue
        if part == 'records_camera' and any(k == 'all_records_dangling' for k, _ in case['inject']):
            continue       # that injection rewrote the valid rows themselves
        got = L['records'].get(part, [])
        if not all(x in got for x in rows):
            return {'signature': 'lost:' + part, 'detail': f'{[x for x in rows if x not in got][:3]}'}
    if current and not removed_feature:
        for kind in ('keypoints', 'descriptors', 'global_features', 'matches', 'observations'):
            if kind == 'observations':
                if O[kind] and not all(x in (L[kind] or []) for x in O[kind]):
                    return {'signature': 'lost:observations', 'detail': f'{[x for x in O[kind] if x not in (L[kind] or [])][:3]}'}
                continue
            for ty, ns in (O[kind] or []):
                got = dict((t, n) for t, n in (L[kind] or [])).get(ty)
                if got is None or not all(n in got for n in ns):
                    return {'signature': 'lost:' + kind, 'detail': f'{ty}: {ns} -> {got}'}
        if O['points3d'] and not L['points3d']:
            return {'signature': 'lost:points3d', 'detail': ''}
    return None


def nontrivial(case):
    if not case['inject'] and case['version'] == '1.1':
        return None
    return json.dumps(case, sort_keys=True)


def distribution(cases_):
    d = {}
    for c in cases_:
        d['version:' + str(c['version'])] = d.get('version:' + str(c['version']), 0) + 1
        for k, _ in c['inject']:
            d['inject:' + k] = d.get('inject:' + k, 0) + 1
        for t in c['tar']:
            d['tar:' + t] = d.get('tar:' + t, 0) + 1
    return d
