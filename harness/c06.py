"""
C06 — switching between rig poses and per-sensor poses never moves a sensor.
Correspondence: rigs_remove / rigs_remove_inplace / rigs_recover / rigs_recover_inplace on generated rig forests (0..4 rigs,
1..4 members, nesting up to 3 — thorough: up to 10 and the depth-11 boundary) and trajectories mixing rig, member and free
entries, versus Model/C06.lean instantiated with the exact-rational pose algebra of C05 (|impl - model| <= 1e-9 x scale).
Oracle (implementation only, own 4x4 matrix arithmetic): after replacement no rig id remains, every sensor has the pose
implied by the chain of mountings, free entries are bit-identical; recovering after replacing restores every top-level rig pose
and leaves every sensor where it was; the non-in-place variants leave their arguments unchanged.
"""
import copy
import json
import math
from fractions import Fraction

import numpy as np

import c05
import kgen

ID = 'C06'
TITLE = 'Switching between rig poses and per-sensor poses never moves a sensor'
GEN = ['RotMat']
RULE = ('(in-place recovery of `warm` cases runs on a Trajectories object with a history: half inserted, sorted timestamps asked for, the rest added through the dict API) each case = a rig forest (0..4 rigs, 1..4 members each, members sensors or rigs, nesting <= 3 in quick / <= 11 in thorough, '
        'each device on at most one rig; rigs declared bottom-up, top-down or shuffled; plus masts of depth 2..4 (thorough: ..10) declared both ways) and a trajectory over 0..4 timestamps where at each timestamp a set of roots (top rigs, '
        'nested rigs, members, free sensors) none below another is posed; with probability 0.4 the Rigs object has a history (another geometry, used for a removal and a recovery, then edited through the nested dict access); op = remove, or recover of a removed trajectory with '
        'masters None, one listed member per rig, or two listed members per rig of which at least one is posed at every timestamp; distinct non-trivial = distinct cases with at least one rig entry')
ASSUMPTIONS = [
    'dict overwrite under conflicting sources is excluded by the quantifier (no device posed from two sources at one timestamp); '
    'under it the trajectories dict is the model\'s entry list up to order',
    'pose arithmetic is C05\'s (exact rationals in the model, floats in the implementation, compared at 1e-9)',
    'recovery theorems take the entry list in ANY listing order (the code sorts by (timestamp, device)); sparse recoveries '
    '(some member poses missing) are covered by correspondence and oracle',
]
TRUSTED = ['C05 pose model']
PARTIAL = ('the recovery half is proved for any nesting depth, with and without master sensors, under explicit well-formedness '
           'hypotheses (distinct rig ids, each device mounted once, no pose from two sources, one master per rig below a posed '
           'device): recover_remove_nested / _masters / _exact; the hypothesis-free recover_remove_statement stays a definition '
           '(for a rig mounted on an unposed parent the passes legitimately replace its entry by the parent\'s)')
_cache = {}
H, F = kgen.H, kgen.F


def kap():
    import kapture
    return kapture


def rnd_pose(rng):
    q = [rng.gauss(0, 1) for _ in range(4)]
    n = math.sqrt(sum(v * v for v in q))
    q = [v / n for v in q]
    x = rng.random()
    if x < 0.15:
        s = rng.choice([2.0, 0.5, -1.0])
        q = [v * s for v in q]
    elif x < 0.35:
        # a mount that is ALMOST aligned (a calibrated stereo pair, a head nearly aligned with its vehicle): a rotation between a
        # millionth of a degree and half a degree, or exactly the identity; its translation still has to be rotated
        eps = rng.choice([0.0, 10.0 ** rng.uniform(-8, -2.3)])
        q = [1.0, q[1] * eps, q[2] * eps, q[3] * eps]
        n = math.sqrt(sum(v * v for v in q))
        q = [v / n for v in q]
    t = [rng.uniform(-10, 10) for _ in range(3)] if rng.random() < 0.8 else [rng.uniform(-100, 100) for _ in range(3)]
    return [H(v) for v in q + t]


def gen_forest(rng, max_depth):
    nrig = rng.choice([0, 1, 2, 3, 4])
    rigs = {}
    sensors = ['s%d' % i for i in range(rng.randint(2, 8))]
    free = list(sensors)
    rng.shuffle(free)
    rig_ids = ['rig%d' % i for i in range(nrig)]
    depth = {r: 1 for r in rig_ids}
    unmounted = []
    for r in rig_ids:
        members = {}
        for _ in range(rng.randint(1, 4)):
            choose_rig = unmounted and rng.random() < 0.4
            if choose_rig:
                cand = [x for x in unmounted if depth[x] + 1 <= max_depth]
                if cand:
                    sub = rng.choice(cand)
                    unmounted.remove(sub)
                    members[sub] = rnd_pose(rng)
                    depth[r] = max(depth[r], depth[sub] + 1)
                    continue
            if free:
                members[free.pop()] = rnd_pose(rng)
        if not members:
            members['solo_' + r] = rnd_pose(rng)
        rigs[r] = members
        unmounted.append(r)
    # declaration order: bottom-up as built, top-down (a rig declared BEFORE the rigs it carries), or shuffled
    order = list(rigs)
    how = rng.choice(['built', 'reversed', 'shuffled'])
    if how == 'reversed':
        order.reverse()
    elif how == 'shuffled':
        rng.shuffle(order)
    return {r: rigs[r] for r in order}, free


def below(rigs, d, acc=None):
    acc = set() if acc is None else acc
    for m in rigs.get(d, {}):
        acc.add(m)
        below(rigs, m, acc)
    return acc


def gen_case(rng, tier):
    max_depth = 3 if tier == 'quick' else rng.choice([3, 3, 6, 10, 11])
    rigs, free = gen_forest(rng, max_depth)
    devices = list(rigs) + sorted({m for ms in rigs.values() for m in ms if m not in rigs}) + free
    traj = []
    for ts in rng.sample(range(0, 50), rng.randint(0, 4)):
        chosen = []
        cands = list(devices)
        rng.shuffle(cands)
        for d in cands:
            if rng.random() < 0.5:
                continue
            if any(d in below(rigs, c) or c in below(rigs, d) or c == d for c in chosen):
                continue
            chosen.append(d)
        for d in chosen:
            traj.append([ts, d, rnd_pose(rng)])
    op = rng.choice(['remove', 'remove', 'recover'])
    masters = None
    if op == 'recover':
        # only top-level roots so that recovery is well defined: member poses come from one rig pose per tree
        traj = [e for e in traj if not any(e[1] in below(rigs, r) for r in rigs)]
        # recovery needs rig poses to recover: pose every top-level rig at most of 2..5 timestamps
        roots = [r for r in rigs if not any(r in ms for ms in rigs.values())]
        have = {(e[0], e[1]) for e in traj}
        for ts in rng.sample(range(50, 100), rng.randint(2, 5)):
            for r in roots:
                if (ts, r) not in have and rng.random() < 0.8:
                    traj.append([ts, r, rnd_pose(rng)])
        if rng.random() < 0.5:
            masters = rng.choice(['first', 'two'])
    if rng.random() < 0.3:
        # a slowly moving platform sampled at high rate: consecutive poses of one device differ by far less than any
        # tolerance-based pose equality (1e-5 on translation, 1e-2 on quaternion components) would notice, in small or
        # UTM-sized coordinates
        far = rng.choice([0.0, 0.0, 4.0e5])
        by_dev = {}
        for e in sorted(traj, key=lambda e: e[0]):
            by_dev.setdefault(e[1], []).append(e)
        for dev, es in by_dev.items():
            q = [F(h) for h in es[0][2][:4]]
            t = [F(h) + far for h in es[0][2][4:]]
            es[0][2] = [H(v) for v in q + t]
            for e in es[1:]:
                dq = rng.choice([1e-4, 1e-3, 0.0])
                dt = rng.choice([1e-6, 1e-3, 0.5]) if far else rng.choice([1e-7, 1e-6, 5e-6])
                q = [q[0], q[1] + dq * rng.uniform(-1, 1), q[2] + dq * rng.uniform(-1, 1), q[3]]
                t = [v + dt * rng.uniform(-1, 1) for v in t]
                e[2] = [H(v) for v in q + t]
    # sparse recovery: some member poses are missing (a sensor that was not localised at that timestamp); what remains
    # still agrees with the rig geometry
    sparse = rng.randrange(1, 10 ** 6) if op == 'recover' and rng.random() < 0.5 else None
    return {'rigs': [[r, [[m, p] for m, p in ms.items()]] for r, ms in rigs.items()], 'traj': traj, 'op': op, 'masters': masters,
            'inplace': rng.random() < 0.5, 'sparse': sparse, 'warm': rng.random() < 0.4}


def chain_case(rng, depth, top_down, op):
    """ a mast: rig_0 carries rig_1 carries ... carries two cameras, each level with a sensor of its own; the outermost rig is
    posed at three timestamps; declared top-down or bottom-up """
    names = ['level%d' % i for i in range(depth)]
    rigs = {}
    for i, r in enumerate(names):
        members = {'own_%d' % i: rnd_pose(rng)}
        if i + 1 < depth:
            members[names[i + 1]] = rnd_pose(rng)
        else:
            members['cam_left'] = rnd_pose(rng)
            members['cam_right'] = rnd_pose(rng)
        rigs[r] = members
    order = names if top_down else list(reversed(names))
    traj = [[ts, names[0], rnd_pose(rng)] for ts in (3, 7, 20)] + [[7, 'free_gnss', rnd_pose(rng)]]
    return {'rigs': [[r, [[m, p] for m, p in rigs[r].items()]] for r in order], 'traj': traj, 'op': op, 'masters': None,
            'inplace': rng.random() < 0.5, 'sparse': None, 'warm': False}


def cases(rng, tier):
    n = 250 if tier == 'quick' else 6000
    out = [gen_case(rng, tier) for _ in range(n)]
    for depth in (2, 3, 4) if tier == 'quick' else (2, 3, 4, 6, 9, 10):
        for top_down in (True, False):
            for op in ('remove', 'recover'):
                out.append(chain_case(rng, depth, top_down, op))
    return out


def build(case):
    kapture = kap()
    rigs = kapture.Rigs()
    if case.get('warm') and case['rigs']:
        # history on the Rigs object: it first held ANOTHER geometry (shifted mountings, one more member), was used for a
        # removal and a recovery, and was then brought to the geometry of the case through the nested access
        # rigs[rig_id][sensor_id] = pose / del rigs[rig_id][sensor_id] (the idiom of kapture's own csv loader)
        T = __import__('sys').modules['kapture.core.Trajectories']
        for r, ms in case['rigs']:
            for m, p in ms:
                q = list(p)
                q[4] = H(F(q[4]) + 1.5)
                rigs[r, m] = c05.mk_pose(q)
        r0 = case['rigs'][0][0]
        rigs[r0, 'warmup_member'] = c05.mk_pose(case['rigs'][0][1][0][1])
        warm = kapture.Trajectories()
        for ts, d, p in case['traj']:
            warm[ts, d] = c05.mk_pose(p)
        try:
            T.rigs_recover(T.rigs_remove(warm, rigs), rigs)
        except Exception:
            pass
        for r, ms in case['rigs']:
            for m, p in ms:
                rigs[r][m] = c05.mk_pose(p)
        del rigs[r0]['warmup_member']
    else:
        for r, ms in case['rigs']:
            for m, p in ms:
                rigs[r, m] = c05.mk_pose(p)
    traj = kapture.Trajectories()
    for ts, d, p in case['traj']:
        traj[ts, d] = c05.mk_pose(p)
    return rigs, traj


def dump(traj):
    return sorted([ts, d, [H(v) for v in p.r_raw + p.t_raw]] for ts, ds in traj.items() for d, p in ds.items())


def dump_rigs(rigs):
    return [[r, [[m, [H(v) for v in p.r_raw + p.t_raw]] for m, p in ms.items()]] for r, ms in rigs.items()]


def masters_of(case, removed):
    if case['masters'] is None:
        return None
    # one posed member per rig and timestamp: the first member of every rig; 'two': the first TWO members of every rig are
    # listed (a stereo pair, either camera may be the one that was localised at a given timestamp)
    out = []
    for r, ms in case['rigs']:
        out.append(ms[0][0])
        if case['masters'] == 'two' and len(ms) > 1:
            out.append(ms[1][0])
    return out


def master_groups(case):
    """ rig -> its listed masters """
    return {r: [m for m, _ in ms[:2 if case['masters'] == 'two' else 1]] for r, ms in case['rigs']}


def run_real(case):
    k = json.dumps(case, sort_keys=True)
    if k in _cache:
        return _cache[k]
    _cache.clear()
    kapture = kap()
    T = __import__('sys').modules['kapture.core.Trajectories']
    rigs, traj = build(case)
    res = {'rigs_before': dump_rigs(rigs), 'traj_before': dump(traj)}
    try:
        if case['inplace']:
            removed = copy.deepcopy(traj)
            T.rigs_remove_inplace(removed, rigs)
        else:
            removed = T.rigs_remove(traj, rigs)
        res['removed'] = dump(removed)
        res['args_unchanged'] = dump_rigs(rigs) == res['rigs_before'] and dump(traj) == res['traj_before']
        if case['op'] == 'recover':
            masters = masters_of(case, removed)
            res['masters'] = masters
            if case.get('sparse'):
                import random as _random
                drng = _random.Random(case['sparse'])
                member_ids = {m for _, ms in case['rigs'] for m, _ in ms}
                groups = master_groups(case) if masters else {}
                rig_of = {m: r for r, ms in groups.items() for m in ms}
                for ts, d, _ in dump(removed):
                    if d not in member_ids or drng.random() >= 0.35:
                        continue
                    if d in (masters or []):
                        # a listed master may be missing at a timestamp as long as another listed master of its rig is posed
                        others = [m for m in groups[rig_of[d]] if m != d and (ts, m) in removed]
                        if not others:
                            continue
                    del removed[ts, d]
            before = dump(removed)
            res['kept'] = before
            if case['inplace']:
                if case.get('warm'):
                    # history on the Trajectories object: half of its entries inserted, its sorted timestamps asked for (which fills
                    # a cache), the rest added the way kapture's own csv loader does it (setdefault on the dict): same content
                    rec = kapture.Trajectories()
                    entries = [(ts, d, p) for ts, ds in removed.items() for d, p in ds.items()]
                    half = len(entries) // 2
                    for ts, d, p in entries[:half]:
                        rec[ts, d] = copy.deepcopy(p)
                    rec.timestamps_sorted_list()
                    for ts, d, p in entries[half:]:
                        rec.setdefault(ts, {})[d] = copy.deepcopy(p)
                else:
                    rec = copy.deepcopy(removed)
                T.rigs_recover_inplace(rec, rigs, masters)
            else:
                rec = T.rigs_recover(removed, rigs, masters)
                res['args_unchanged'] = res['args_unchanged'] and dump(removed) == before and dump_rigs(rigs) == res['rigs_before']
            res['recovered'] = dump(rec)
            if not case['inplace']:
                # aliasing: whatever is done LATER to the object a non-in-place variant returned must not reach its argument
                for ts in list(rec):
                    rec[ts].clear()
                res['args_unchanged'] = res['args_unchanged'] and dump(removed) == before
        if not case['inplace']:
            for ts in list(removed):
                removed[ts].clear()
            res['args_unchanged'] = res['args_unchanged'] and dump(traj) == res['traj_before'] and dump_rigs(rigs) == res['rigs_before']
        res['error'] = None
    except Exception as e:
        res['error'] = type(e).__name__ + ': ' + str(e)[:150]
    _cache[k] = res
    return res


def run_impl(case):
    r = run_real(case)
    if r['error']:
        return {'error': r['error']}
    return {'traj': r['recovered'] if case['op'] == 'recover' else r['removed']}


def rp(p):
    return [c05.rat(F(h)) for h in p]


def to_model(case):
    r = run_real(case)
    rigs = [[rid, [[m, rp(p)] for m, p in ms]] for rid, ms in case['rigs']]
    if case['op'] == 'remove' or r['error']:
        return [{'op': 'remove', 'rigs': rigs, 'traj': [[ts, d, rp(p)] for ts, d, p in case['traj']], 'depth': 10}]
    return [{'op': 'recover', 'rigs': rigs, 'traj': [[ts, d, rp(p)] for ts, d, p in r['kept']], 'masters': r['masters'], 'depth': 10}]


def compare(case, io_, mo):
    mo = mo[0]
    if 'error' in io_:
        return f'implementation raised {io_["error"]}'
    if 'error' in mo:
        return f'model error {mo}'
    a = io_['traj']
    b = sorted(mo['traj'], key=lambda e: (e[0], e[1]))
    if [(e[0], e[1]) for e in a] != [(e[0], e[1]) for e in b]:
        return f'keys: impl {[(e[0], e[1]) for e in a]} model {[(e[0], e[1]) for e in b]}'
    for ea, eb in zip(a, b):
        scale = max([Fraction(1)] + [abs(c05.unrat(x)) for x in eb[2]])
        for i, (x, y) in enumerate(zip(ea[2], eb[2])):
            if abs(Fraction(F(x)) - c05.unrat(y)) > Fraction(1, 10 ** 9) * scale * 10:
                return f'pose of ({ea[0]},{ea[1]}) component {i}: impl {F(x)!r} model {float(c05.unrat(y))!r}'
    return None


# ---------------------------------------------------------------------------------------------------- oracle (own matrices)

def mat(p):
    w, x, y, z, tx, ty, tz = [F(h) for h in p]
    n = w * w + x * x + y * y + z * z
    s = 2.0 / n
    R = np.array([[1 - s * (y * y + z * z), s * (x * y - z * w), s * (x * z + y * w)],
                  [s * (x * y + z * w), 1 - s * (x * x + z * z), s * (y * z - x * w)],
                  [s * (x * z - y * w), s * (y * z + x * w), 1 - s * (x * x + y * y)]])
    M = np.eye(4)
    M[:3, :3] = R
    M[:3, 3] = [tx, ty, tz]
    return M


def close(A, B):
    return bool(np.all(np.abs(A - B) <= 1e-9 * max(1.0, float(np.max(np.abs(B))))))


def expected_sensor_poses(case):
    rigs = {r: dict(ms) for r, ms in case['rigs']}
    out = {}

    def walk(ts, d, M):
        if d in rigs:
            for m, p in rigs[d].items():
                walk(ts, m, mat(p) @ M)
        else:
            out[(ts, d)] = M
    for ts, d, p in case['traj']:
        walk(ts, d, mat(p))
    return out


def oracle(case):
    r = run_real(case)
    if r['error']:
        return {'signature': 'raises:' + r['error'].split(':')[0], 'detail': r['error']}
    if not r['args_unchanged']:
        return {'signature': 'arguments-modified', 'detail': 'a non-in-place variant (or the rigs argument) was modified'}
    rig_ids = {rid for rid, _ in case['rigs']}
    removed = {(ts, d): p for ts, d, p in r['removed']}
    for (ts, d) in removed:
        if d in rig_ids:
            return {'signature': 'rig-left', 'detail': f'({ts},{d}) is still a rig entry after replacement'}
    exp = expected_sensor_poses(case)
    if set(exp) != set(removed):
        return {'signature': 'sensor-set', 'detail': f'missing {sorted(set(exp) - set(removed))[:3]} extra {sorted(set(removed) - set(exp))[:3]}'}
    for k, M in exp.items():
        if not close(mat(removed[k]), M):
            return {'signature': 'sensor-moved', 'detail': f'{k} is not at the pose implied by the rig geometry'}
    for ts, d, p in case['traj']:
        if d not in rig_ids and removed[(ts, d)] != p:
            return {'signature': 'free-entry-touched', 'detail': f'({ts},{d}) is not bit-identical'}
    if case['op'] == 'recover':
        rec = {(ts, d): p for ts, d, p in r['recovered']}
        kept = {(ts, d) for ts, d, _ in r['kept']}
        for ts, d, p in case['traj']:
            if d in rig_ids:
                if not any((ts, m) in kept for m in below_ids(case, d)):
                    continue    # sparse recovery: nothing posed under this rig at this timestamp, nothing to recover from
                if (ts, d) not in rec or not close(mat(rec[(ts, d)]), mat(p)):
                    return {'signature': 'rig-pose-not-recovered', 'detail': f'top-level rig ({ts},{d})'}
            elif (ts, d) not in rec or not close(mat(rec[(ts, d)]), mat(p)):
                return {'signature': 'free-entry-lost', 'detail': f'({ts},{d})'}
        # every sensor still posed stays where it was
        again = dict(case, traj=[[ts, d, p] for (ts, d), p in rec.items()])
        exp2 = expected_sensor_poses(again)
        for k, M in exp2.items():
            if k in exp and not close(M, exp[k]):
                return {'signature': 'sensor-moved-by-recover', 'detail': f'{k}'}
        for k in sorted(kept):
            if k not in exp2:
                return {'signature': 'sensor-pose-lost-by-recover', 'detail': f'{k} was posed before recovery and is not implied by the result'}
    return None


def below_ids(case, rid):
    """ all devices mounted (directly or not) on rig rid """
    rigs = {r: [m for m, _ in ms] for r, ms in case['rigs']}
    out, todo = [], list(rigs.get(rid, []))
    while todo:
        m = todo.pop()
        out.append(m)
        todo.extend(rigs.get(m, []))
    return out


def nontrivial(case):
    rig_ids = {rid for rid, _ in case['rigs']}
    if not any(d in rig_ids for _, d, _ in case['traj']):
        return None
    return json.dumps(case, sort_keys=True)


def distribution(cases_):
    d = {}
    for c in cases_:
        d[c['op']] = d.get(c['op'], 0) + 1
        d['rigs=%d' % len(c['rigs'])] = d.get('rigs=%d' % len(c['rigs']), 0) + 1
        rig_ids = {rid for rid, _ in c['rigs']}
        if any(m in rig_ids for _, ms in c['rigs'] for m, _ in ms):
            d['nested'] = d.get('nested', 0) + 1
        if c['masters']:
            d['masters'] = d.get('masters', 0) + 1
    return d
