"""
harness/core.py — shared machinery of every check:

  1. regenerate lean/Kapture/Gen/*.lean from /repo's working tree (gen/gen.py)
  2. build the property's theorems (lake), audit their axioms, grep for forbidden escapes
  3. correspondence: run the implementation in-process and the Lean model (driver, line protocol) on the same
     cases; run the property's direct oracle on the implementation for every case
  4. verdict, evidence, replay, known findings

Exit codes: 0 = property shown to hold on this tree; 1 = VIOLATION line printed; 2 = infrastructure failure.
"""
import fcntl
import hashlib
import json
import os
import random
import re
import subprocess
import sys
import time
import traceback
import warnings
warnings.filterwarnings('ignore')
import logging
logging.disable(logging.CRITICAL)

VERIF = os.path.dirname(os.path.dirname(os.path.abspath(__file__)))
REPO = os.environ.get('KAPTURE_REPO', '/repo')
LEAN = os.path.join(VERIF, 'lean')
WORK = os.path.join(VERIF, '.work')
ALLOWED_AXIOMS = {'propext', 'Classical.choice', 'Quot.sound'}
FORBIDDEN = re.compile(r'\bsorry\b|\badmit\b|^\s*axiom\s|native_decide|bv_decide|implemented_by|\bunsafe\s|maxHeartbeats\s+0\b',
                       re.M)

sys.path.insert(0, os.path.join(VERIF, 'gen'))
sys.path.insert(0, REPO)   # the implementation under test is /repo's working tree
os.environ.setdefault('NAVER_KAPTURE_VERIF', '1')


class Infra(Exception):
    """ infrastructure failure: exit 2, never a violation """


def log(*a):
    print(*a, file=sys.stderr, flush=True)


# ---------------------------------------------------------------------------------------------------------------------
# lean side
# ---------------------------------------------------------------------------------------------------------------------

class LakeLock:
    def __enter__(self):
        os.makedirs(WORK, exist_ok=True)
        self.f = open(os.path.join(WORK, 'lake.lock'), 'w')
        fcntl.flock(self.f, fcntl.LOCK_EX)
        return self

    def __exit__(self, *a):
        fcntl.flock(self.f, fcntl.LOCK_UN)
        self.f.close()


def regenerate(names):
    import gen
    gen.REPO = REPO
    importlib_invalidate()
    return gen.generate(names)


def importlib_invalidate():
    import importlib
    importlib.invalidate_caches()


def lake_build(targets, timeout=1500):
    """ returns (ok, log) """
    if not targets:
        return True, ''
    try:
        p = subprocess.run(['lake', 'build'] + targets, cwd=LEAN, capture_output=True, text=True, timeout=timeout)
    except FileNotFoundError as e:
        raise Infra(f'lake not found: {e}')
    except subprocess.TimeoutExpired:
        raise Infra('lake build timed out')
    return p.returncode == 0, (p.stdout + p.stderr)


def strip_comments(text):
    # remove /- ... -/ (nested not handled beyond one level of care) and -- ... comments
    out = []
    i, n, depth = 0, len(text), 0
    while i < n:
        if text.startswith('/-', i):
            depth += 1
            i += 2
        elif depth and text.startswith('-/', i):
            depth -= 1
            i += 2
        elif depth:
            if text[i] == '\n':
                out.append('\n')
            i += 1
        elif text.startswith('--', i):
            while i < n and text[i] != '\n':
                i += 1
        elif text[i] == '"':
            # string literal: copy verbatim but blank its content
            j = i + 1
            while j < n and text[j] != '"':
                j += 2 if text[j] == '\\' else 1
            out.append('""')
            i = j + 1
        else:
            out.append(text[i])
            i += 1
    return ''.join(out)


def theorem_names(prop_id):
    """ names (fully qualified) of every `theorem` in Props/<id>.lean """
    path = os.path.join(LEAN, 'Kapture', 'Props', prop_id + '.lean')
    text = strip_comments(open(path, encoding='utf-8').read())
    names = []
    ns = []
    for line in text.split('\n'):
        m = re.match(r'\s*namespace\s+(\S+)', line)
        if m:
            ns.append(m.group(1))
            continue
        m = re.match(r'\s*end\s+(\S+)', line)
        if m and ns and ns[-1] == m.group(1):
            ns.pop()
            continue
        m = re.match(r'\s*(?:@\[[^\]]*\]\s*)?(private\s+|protected\s+)?theorem\s+(\S+)', line)
        if m and not m.group(1):
            names.append('.'.join(ns + [m.group(2)]))
    return names


def import_closure(roots):
    """ Kapture.* modules reachable from the given module names through `import` lines """
    seen, todo = [], list(roots)
    while todo:
        m = todo.pop()
        if m in seen:
            continue
        path = os.path.join(LEAN, *m.split('.')) + '.lean'
        if not os.path.exists(path):
            continue
        seen.append(m)
        for line in open(path, encoding='utf-8'):
            mm = re.match(r'\s*import\s+(Kapture\.\S+)', line)
            if mm:
                todo.append(mm.group(1))
    return sorted(seen)


def forbidden_hits(prop_id):
    """ forbidden escapes in every project file the property's theorems and driver depend on """
    hits = []
    for m in import_closure([f'Kapture.Props.{prop_id}', f'Kapture.Drivers.{prop_id}']):
        path = os.path.join(LEAN, *m.split('.')) + '.lean'
        text = strip_comments(open(path, encoding='utf-8').read())
        for mt in FORBIDDEN.finditer(text):
            hits.append(f'{m}: {mt.group(0).strip()}')
    return hits


def audit_axioms(prop_id, names):
    """ runs `#print axioms` on every theorem; returns {name: [axioms] | None(if failed)} """
    os.makedirs(WORK, exist_ok=True)
    path = os.path.join(WORK, f'Audit_{prop_id}_{os.getpid()}.lean')
    with open(path, 'w') as f:
        f.write(f'import Kapture.Props.{prop_id}\n')
        for n in names:
            f.write(f'#print axioms {n}\n')
    try:
        p = subprocess.run(['lake', 'env', 'lean', path], cwd=LEAN, capture_output=True, text=True, timeout=600)
    except subprocess.TimeoutExpired:
        raise Infra('axiom audit timed out')
    finally:
        pass
    out = p.stdout + p.stderr
    os.unlink(path)
    res = {n: None for n in names}
    for m in re.finditer(r"'([^']+)' depends on axioms: \[([^\]]*)\]", out, re.S):
        res[m.group(1)] = [a.strip() for a in m.group(2).replace('\n', ' ').split(',') if a.strip()]
    for m in re.finditer(r"'([^']+)' does not depend on any axioms", out):
        res[m.group(1)] = []
    return res, out


class ModelDriver:
    """ batch line protocol: all requests in, all responses out (one process) """

    def __init__(self, prop_id):
        self.prop_id = prop_id
        self.path = os.path.join('Kapture', 'Drivers', prop_id + '.lean')

    def run(self, requests, timeout=3000):
        if not requests:
            return []
        os.makedirs(WORK, exist_ok=True)
        inp = os.path.join(WORK, f'req_{self.prop_id}_{os.getpid()}.jsonl')
        with open(inp, 'w') as f:
            for r in requests:
                f.write(json.dumps(r, separators=(',', ':')) + '\n')
        try:
            with open(inp) as fin:
                p = subprocess.run(['lake', 'env', 'lean', '--run', self.path], cwd=LEAN, stdin=fin,
                                   capture_output=True, text=True, timeout=timeout)
        except subprocess.TimeoutExpired:
            raise Infra('model driver timed out')
        finally:
            if os.path.exists(inp):
                os.unlink(inp)
        lines = [l for l in p.stdout.split('\n') if l.strip()]
        if p.returncode != 0 or len(lines) != len(requests):
            return {'driver_error': (p.stderr or p.stdout)[-2000:], 'returncode': p.returncode,
                    'got': len(lines), 'expected': len(requests)}
        return [json.loads(l) for l in lines]


# ---------------------------------------------------------------------------------------------------------------------
# known findings
# ---------------------------------------------------------------------------------------------------------------------

def load_known(prop_id):
    path = os.path.join(VERIF, 'known_findings.json')
    if not os.path.exists(path):
        return []
    data = json.load(open(path))
    return [e for e in data.get('findings', []) if e.get('property') == prop_id and e.get('status') == 'known']


# ---------------------------------------------------------------------------------------------------------------------
# the run
# ---------------------------------------------------------------------------------------------------------------------

def jsonable(x):
    try:
        json.dumps(x)
        return x
    except Exception:
        return repr(x)


def run_property(P, tier, seed, replay=None):
    """
    P is a property module with:
      ID, GEN (list of generator names), TITLE
      cases(rng, tier) -> list[dict]              generated cases (corpus is prepended by core)
      run_impl(case) -> jsonable                   the implementation's canonical answer
      to_model(case) -> list[dict]                 requests for the Lean driver
      compare(case, impl_out, model_outs) -> None | str
      oracle(case) -> None | dict(signature, detail)   the property evaluated on the implementation alone
      nontrivial(case) -> hashable | None          key for distinct non-trivial counting
      RULE: str
      optional: search_cases(rng, tier, hint) -> list[dict]   extra cases for the failing-input search
                shrink(case, still_fails) -> case
                ASSUMPTIONS: list[str];  PARTIAL: str
    """
    t0 = time.time()
    pid = P.ID
    rng = random.Random(seed)
    known = load_known(pid)
    tie_failures = []      # things that break the model<->code tie or the proof
    info = {}

    if replay:
        rp = json.load(open(replay))
        case = rp.get('case')
        if case is None:
            print(f'replay {replay} holds no failing input ({rp.get("broken")})')
            return 1
        f = P.oracle(case)
        print(json.dumps({'case': case, 'oracle': f}, indent=1, default=repr))
        if f is not None and any(k.get('signature') == f.get('signature') for k in known):
            print(f'KNOWN-FINDING: property={pid} ' + next(k['what'] for k in known if k.get('signature') == f.get('signature')))
            return 0
        if f is not None:
            print(f'VIOLATION property={pid} replay={replay}')
            return 1
        print('oracle passes on this input now')
        return 0

    # 1. regenerate
    with LakeLock():
        gen_res = regenerate(P.GEN)
        info['gen'] = gen_res
        for k, v in gen_res.items():
            if not v['ok']:
                tie_failures.append({'kind': 'translator', 'module': k, 'error': v['error']})
        # 2. build model+driver first (needed for correspondence), then the theorems
        model_ok, model_log = lake_build([f'Kapture.Drivers.{pid}'])
        if not model_ok:
            tie_failures.append({'kind': 'model-build', 'log': model_log[-3000:]})
        proofs_ok, proofs_log = lake_build([f'Kapture.Props.{pid}'])
        if not proofs_ok:
            errs = re.findall(r'error: (Kapture/[^\n]*)', proofs_log)
            tie_failures.append({'kind': 'proof', 'errors': errs[:20], 'log': proofs_log[-3000:]})
    names = theorem_names(pid)
    obligations = len(names)
    discharged = 0
    axioms_used = set()
    if proofs_ok:
        ax, audit_out = audit_axioms(pid, names)
        for n, a in ax.items():
            if a is None:
                tie_failures.append({'kind': 'audit', 'theorem': n, 'error': 'no axiom report'})
            elif not set(a) <= ALLOWED_AXIOMS:
                tie_failures.append({'kind': 'audit', 'theorem': n, 'axioms': a})
            else:
                discharged += 1
                axioms_used |= set(a)
    hits = forbidden_hits(pid)
    if hits:
        tie_failures.append({'kind': 'forbidden-token', 'hits': hits})
    if tier == 'thorough' and proofs_ok:
        try:
            p = subprocess.run(['lake', 'env', 'leanchecker', f'Kapture.Props.{pid}'], cwd=LEAN, capture_output=True,
                               text=True, timeout=1800)
            info['leanchecker'] = {'returncode': p.returncode, 'tail': (p.stdout + p.stderr)[-500:]}
            if p.returncode != 0:
                tie_failures.append({'kind': 'leanchecker', 'log': (p.stdout + p.stderr)[-2000:]})
        except subprocess.TimeoutExpired:
            info['leanchecker'] = 'timeout (not counted)'
    t_build = time.time() - t0

    # 3. correspondence + oracle
    corpus_dir = os.path.join(VERIF, 'corpus', pid)
    corpus = []
    if os.path.isdir(corpus_dir):
        for fn in sorted(os.listdir(corpus_dir)):
            if fn.endswith('.json'):
                c = json.load(open(os.path.join(corpus_dir, fn)))
                c['_corpus'] = fn
                corpus.append(c)
    cases = corpus + list(P.cases(rng, tier))
    impl_outs, requests, spans = [], [], []
    oracle_failures = []
    known_hits = {}
    harness_errors = []
    for c in cases:
        try:
            impl_outs.append(P.run_impl(c))
        except Exception as e:   # run_impl maps the implementation's own exceptions; this is a harness bug
            harness_errors.append({'case': jsonable(c), 'error': traceback.format_exc()[-1500:]})
            impl_outs.append({'harness_error': repr(e)})
        try:
            f = P.oracle(c)
        except Exception as e:
            harness_errors.append({'case': jsonable(c), 'error': traceback.format_exc()[-1500:]})
            f = None
        if f is not None:
            record_failure(f, c, known, known_hits, oracle_failures)
        try:
            reqs = P.to_model(c)
        except Exception as e:
            harness_errors.append({'case': jsonable(c), 'error': traceback.format_exc()[-1500:]})
            impl_outs[-1] = {'harness_error': repr(e)}
            reqs = []
        spans.append((len(requests), len(requests) + len(reqs)))
        requests.extend(reqs)
    if harness_errors:
        # the harness could not digest what the implementation did on these inputs (on the unchanged tree it always can):
        # the correspondence is broken there, which is reported like any other broken tie, with the inputs searched first
        log(json.dumps(harness_errors[:2], indent=1, default=repr)[:4000])
        tie_failures.append({'kind': 'harness', 'count': len(harness_errors), 'first': harness_errors[0],
                             'what': 'the correspondence could not be evaluated on these inputs (exception while reading the '
                                     'implementation\'s output)'})

    disagreements = []
    model_outs = None
    if model_ok:
        model_outs = ModelDriver(pid).run(requests)
        if isinstance(model_outs, dict):
            tie_failures.append({'kind': 'driver', **model_outs})
            model_outs = None
    if model_outs is not None:
        for c, io, (a, b) in zip(cases, impl_outs, spans):
            if isinstance(io, dict) and 'harness_error' in io:
                continue
            d = P.compare(c, io, model_outs[a:b])
            if d is not None:
                disagreements.append({'case': c, 'impl': io, 'model': model_outs[a:b], 'diff': d})
    if disagreements:
        tie_failures.append({'kind': 'correspondence', 'count': len(disagreements),
                             'first': jsonable(disagreements[0])})

    # 4. failing-input search when the tie or a proof broke and the oracle has not already found an input
    searched = 0
    if tie_failures and not oracle_failures:
        extra = []
        if hasattr(P, 'search_cases'):
            extra = list(P.search_cases(rng, tier, tie_failures))
        else:
            for _ in range(5):
                extra.extend(P.cases(rng, tier))
        for c in [h['case'] for h in harness_errors] + [d['case'] for d in disagreements] + extra:
            searched += 1
            try:
                f = P.oracle(c)
            except Exception:
                f = {'signature': 'oracle-exception', 'detail': traceback.format_exc()[-1500:]}
            if f is not None:
                record_failure(f, c, known, known_hits, oracle_failures)
                if oracle_failures:
                    break

    # distinct / nontrivial
    keys = set()
    for c in cases:
        k = P.nontrivial(c)
        if k is not None:
            keys.add(k if isinstance(k, (str, int, tuple)) else json.dumps(k, sort_keys=True, default=repr))
    wall = time.time() - t0

    violation = bool(oracle_failures) or bool(tie_failures)
    replay_path = None
    stale = os.path.join(VERIF, 'replays', f'{pid}-{seed}.json')
    if not violation and os.path.exists(stale):
        os.unlink(stale)
    if violation:
        os.makedirs(os.path.join(VERIF, 'replays'), exist_ok=True)
        replay_path = os.path.join('replays', f'{pid}-{seed}.json')
        rp = {'property': pid, 'seed': seed, 'tier': tier}
        if oracle_failures:
            f0 = oracle_failures[0]
            case = f0['case']
            if hasattr(P, 'shrink'):
                try:
                    sig0 = (f0['failure'] or {}).get('signature')

                    def same_failure(cc):
                        # shrink towards the SAME failure: a smaller input that fails for another reason (in particular a
                        # listed known finding) is not a replay of this violation
                        g = P.oracle(cc)
                        return g is not None and g.get('signature') == sig0
                    case = P.shrink(case, same_failure)
                except Exception:
                    pass
            try:
                f1 = P.oracle(case)
            except Exception:
                f1 = None
            rp.update({'case': case, 'oracle': f1 or f0['failure'], 'how': 'the property oracle fails on the implementation '
                       'for this input; re-run with ./check %s --replay <this file>' % pid})
        else:
            rp.update({'case': None, 'how': 'no failing input found; the items under "broken" no longer check',
                       'searched_cases': searched + len(cases)})
        rp['broken'] = jsonable(tie_failures)
        with open(os.path.join(VERIF, replay_path), 'w') as f:
            json.dump(rp, f, indent=1, default=repr)

    evidence = {
        'property_id': pid,
        'tier': tier,
        'seed': seed,
        'level': 'proof',
        'coverage': {
            'obligations': obligations,
            'discharged': discharged,
            'checker_cmd': f'cd lean && lake build Kapture.Props.{pid} && lake env lean <#print axioms of each theorem>'
                           + (' && lake env leanchecker Kapture.Props.%s' % pid if tier == 'thorough' else ''),
            'trusted_base': ['Lean 4.33.0 kernel', 'axioms: ' + ', '.join(sorted(axioms_used) or ['none']),
                             'gen/gen.py translator for ' + ', '.join(P.GEN or ['(none)']),
                             'harness/%s.py correspondence + oracle' % pid.lower()] + list(getattr(P, 'TRUSTED', [])),
            'theorems': names,
            'evaluations': len(cases),
            'distinct_nontrivial': len(keys),
            'rule': P.RULE,
            'samples': [jsonable(c) for c in cases[:1] + cases[len(cases) // 2: len(cases) // 2 + 1]],
            'traces_validated_against_impl': len(cases) if model_outs is not None else 0,
            'model_requests': len(requests),
            'disagreements': len(disagreements),
            'oracle_failures': len(oracle_failures),
            'known_findings_seen': {k: v for k, v in known_hits.items()},
            'failing_input_search_cases': searched,
            'corpus_cases': len(corpus),
            'generated_modules': {k: v.get('sha') for k, v in info.get('gen', {}).items()},
            'distribution': P.distribution(cases) if hasattr(P, 'distribution') else {},
            'build_s': round(t_build, 1),
            'leanchecker': info.get('leanchecker'),
            'partial': getattr(P, 'PARTIAL', ''),
        },
        'assumptions': list(getattr(P, 'ASSUMPTIONS', [])),
        'wall_s': round(wall, 2),
        'violations': (1 if violation else 0),
    }
    os.makedirs(os.path.join(VERIF, 'evidence'), exist_ok=True)
    with open(os.path.join(VERIF, 'evidence', pid + '.json'), 'w') as f:
        json.dump(evidence, f, indent=1, default=repr)

    for sig, n in known_hits.items():
        what = next((e['what'] for e in known if e['signature'] == sig), sig)
        print(f'KNOWN-FINDING: property={pid} {what} (seen on {n} cases)')
    print(f'[{pid}] tier={tier} seed={seed} theorems={discharged}/{obligations} cases={len(cases)} '
          f'nontrivial={len(keys)} disagreements={len(disagreements)} oracle_failures={len(oracle_failures)} '
          f'wall={wall:.1f}s')
    if violation:
        for tf in tie_failures:
            log(f'[{pid}] broken: {tf["kind"]}: ' + json.dumps({k: v for k, v in tf.items() if k not in ("kind", "log")},
                                                              default=repr)[:600])
        tail = '' if oracle_failures else ' no-failing-input-found'
        print(f'VIOLATION property={pid} replay={replay_path}{tail}')
        return 1
    return 0


def record_failure(f, case, known, known_hits, oracle_failures):
    sig = f.get('signature')
    for e in known:
        if e['signature'] == sig:
            known_hits[sig] = known_hits.get(sig, 0) + 1
            return
    oracle_failures.append({'case': case, 'failure': f})


def main(argv):
    import importlib
    import argparse
    ap = argparse.ArgumentParser()
    ap.add_argument('prop')
    ap.add_argument('--tier', default=os.environ.get('VERIF_TIER', 'quick'))
    ap.add_argument('--replay')
    a = ap.parse_args(argv)
    seed = int(os.environ.get('VERIF_SEED', '0') or 0)
    sys.path.insert(0, os.path.join(VERIF, 'harness'))
    try:
        P = importlib.import_module(a.prop.lower())
        return run_property(P, a.tier, seed, a.replay)
    except Infra as e:
        log(f'INFRASTRUCTURE FAILURE: {e}')
        return 2
    except Exception:
        log('INFRASTRUCTURE FAILURE (unexpected):\n' + traceback.format_exc())
        return 2


if __name__ == '__main__':
    sys.exit(main(sys.argv[1:]))
